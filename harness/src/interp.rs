//! E1 interpreter: run one `Case` against the real cache and the reference model, with the
//! oracle of exactly one property switched on.

use crate::alloc;
use crate::inst::*;
use crate::model::*;
use crate::ops::*;
use crate::sut::*;
use std::collections::{BTreeMap, BTreeSet, HashMap};
use std::panic::{catch_unwind, AssertUnwindSafe};

#[derive(Clone, Copy, Debug, PartialEq, Eq, Hash, PartialOrd, Ord)]
pub enum Prop {
    C01,
    C02,
    C03,
    C04,
    C05,
    C06,
    C07,
    C08,
    C09,
    C10,
    C12,
    C14,
    C15,
    /// no oracle: just run and record the trace (used by the C13 / C16 / C17 runners)
    Trace,
}

impl Prop {
    pub fn id(self) -> &'static str {
        match self {
            Prop::C01 => "C01",
            Prop::C02 => "C02",
            Prop::C03 => "C03",
            Prop::C04 => "C04",
            Prop::C05 => "C05",
            Prop::C06 => "C06",
            Prop::C07 => "C07",
            Prop::C08 => "C08",
            Prop::C09 => "C09",
            Prop::C10 => "C10",
            Prop::C12 => "C12",
            Prop::C14 => "C14",
            Prop::C15 => "C15",
            Prop::Trace => "trace",
        }
    }
    pub fn model_based(self) -> bool {
        matches!(self, Prop::C06 | Prop::C07 | Prop::C08 | Prop::C09 | Prop::C10)
    }
    pub fn kind_ok(self, k: Kind) -> bool {
        match self {
            Prop::C06 | Prop::C15 => k.is_lru(),
            Prop::C07 => k == Kind::Seg,
            Prop::C08 => k == Kind::TwoQ,
            Prop::C09 => k == Kind::Arc,
            Prop::C10 => k == Kind::Wtl,
            Prop::C14 => k.has_iters(),
            _ => true,
        }
    }
}

#[derive(Clone, Debug)]
pub struct Violation {
    pub prop: &'static str,
    pub step: usize,
    pub msg: String,
    /// coarse signature: kind/op/class (used to match known findings)
    pub sig: String,
}

#[derive(Clone, Debug, Default)]
pub struct CaseReport {
    pub violation: Option<Violation>,
    pub stats: Stats,
    /// a library call panicked (location, message) and the property does not own panics
    pub aborted_by_panic: Option<(String, String)>,
    pub unbuildable: Option<String>,
    pub steps: usize,
    pub nontrivial: bool,
    pub trace: Vec<Out>,
    pub views: Vec<View>,
    /// bit set of `Op::idx()` of the ops executed
    pub op_mask: u64,
    pub cb_paths: usize,
    pub cb_written: bool,
}

/// exact aged-count model of the estimator (lower bound oracle for C10 / C11)
#[derive(Clone, Debug, Default)]
pub struct MT {
    pub samples: usize,
    pub w: usize,
    pub dk: HashMap<u64, bool>,
    pub cnt: HashMap<u64, u8>,
    pub resets: u64,
    pub halved_gt1: u64,
}
impl MT {
    pub fn new(samples: usize) -> MT {
        MT { samples, ..Default::default() }
    }
    pub fn try_reset(&mut self) {
        self.w += 1;
        if self.w >= self.samples {
            self.resets += 1;
            self.w = 0;
            self.dk.clear();
            for c in self.cnt.values_mut() {
                if *c > 1 {
                    self.halved_gt1 += 1;
                }
                *c /= 2;
            }
        }
    }
    pub fn inc(&mut self, h: u64) {
        if *self.dk.get(&h).unwrap_or(&false) {
            let c = self.cnt.entry(h).or_insert(0);
            if *c < 15 {
                *c += 1;
            }
        } else {
            self.dk.insert(h, true);
        }
        self.try_reset();
    }
    pub fn est(&self, h: u64) -> u64 {
        *self.cnt.get(&h).unwrap_or(&0) as u64 + *self.dk.get(&h).unwrap_or(&false) as u64
    }
    pub fn dk(&self, h: u64) -> bool {
        *self.dk.get(&h).unwrap_or(&false)
    }
    pub fn clear(&mut self) {
        self.w = 0;
        self.dk.clear();
        self.cnt.clear();
    }
}

fn outs_equal(a: &Out, b: &Out) -> bool {
    match (a, b) {
        (Out::Text(_), Out::Text(_)) => true,
        _ => a == b,
    }
}

fn fmt_lists(kind: Kind, lists: &[Vec<(u16, u32)>]) -> String {
    let names = kind.list_names();
    lists.iter().enumerate().map(|(i, l)| format!("{}={:?}", names[i], l)).collect::<Vec<_>>().join(" ")
}

pub fn case_keys(case: &Case) -> Vec<u16> {
    let mut s: BTreeSet<u16> = (0..case.alphabet.min(24)).collect();
    for op in &case.ops {
        if let Some(k) = op.key() {
            s.insert(k);
        }
    }
    s.into_iter().collect()
}

pub fn sig(kind: Kind, op: &Op, class: &str) -> String {
    format!("{}/{}/{}", kind.short(), op.name(), class)
}

pub fn panic_class(loc: &str) -> String {
    // strip the line number: signatures must survive unrelated edits
    let file = loc.rsplit_once(':').map(|x| x.0).unwrap_or(loc);
    let file = file.rsplit_once("/repo/").map(|x| x.1).unwrap_or(file);
    format!("panic@{}", file)
}

/// run a case with the oracle of `prop`; `K` selects the key type
pub fn run_case<K: KeyLike>(case: &Case, prop: Prop, keep_trace: bool) -> CaseReport {
    reset_case();
    let _ = take_last_panic();
    let kind = case.kind;
    if matches!(prop, Prop::C03) {
        alloc::set_quarantine(true);
        alloc::take_quarantine_damage();
    }
    // `rep` owns no heap memory unless a trace is kept or something went wrong
    let mut rep = CaseReport::default();
    let blocks0 = alloc::live_blocks();
    {
        let keys = case_keys(case);
        // W-TinyLFU: a third of the cases get byte buffers that are not word aligned (legal for
        // align-1 allocations): estimator rows / doorkeeper must not depend on their address
        if kind == Kind::Wtl {
            let seed = case.cfg.sketch_seed.unwrap_or(1);
            alloc::set_misalign(if seed % 3 == 0 { 1 + (seed / 3 % 7) as u8 } else { 8 });
        }
        let r = run_inner::<K>(case, prop, keep_trace, &keys, &mut rep);
        alloc::set_misalign(8);
        if let Err(v) = r {
            rep.violation = Some(v);
        }
    }
    clear_cb_logs();
    let _ = take_last_panic();
    let clean = rep.violation.is_none() && rep.aborted_by_panic.is_none() && rep.unbuildable.is_none();
    if matches!(prop, Prop::C03) {
        let dmg = alloc::flush_quarantine();
        alloc::take_quarantine_damage();
        alloc::set_quarantine(false);
        if dmg > 0 && clean {
            rep.violation = Some(Violation {
                prop: prop.id(),
                step: rep.steps,
                msg: format!("{} freed block(s) were written to after being freed (quarantine pattern damaged)", dmg),
                sig: format!("{}/-/write-after-free", kind.short()),
            });
        }
    }
    if alloc::TRACKING && prop == Prop::C04 && clean && !keep_trace {
        let now = alloc::live_blocks();
        if now != blocks0 {
            rep.violation = Some(Violation {
                prop: "C04",
                step: rep.steps,
                msg: format!("{} heap block(s) allocated since before the cache was constructed are still live after it was dropped (leak)", now - blocks0),
                sig: format!("{}/-/leak-blocks", kind.short()),
            });
        }
    }
    rep.nontrivial = nontrivial(prop, kind, &rep);
    rep
}

fn nontrivial(prop: Prop, kind: Kind, rep: &CaseReport) -> bool {
    let s = &rep.stats;
    let g = |e: Ev| s.get(e) > 0;
    match prop {
        Prop::C01 => g(Ev::ReachedFull) && g(Ev::AdmitAfterFull),
        Prop::C02 => g(Ev::HitAfterReput),
        Prop::C03 => {
            if kind.is_lru() {
                g(Ev::Eviction)
            } else {
                (g(Ev::Promotion) || g(Ev::Demotion) || g(Ev::GhostHit) || g(Ev::VictimRecent) || g(Ev::VictimFrequent))
                    && (g(Ev::Eviction) || g(Ev::VictimRecent) || g(Ev::VictimFrequent))
            }
        }
        Prop::C04 => g(Ev::Eviction) && g(Ev::Update) && g(Ev::Removal),
        Prop::C05 => g(Ev::ReachedFull) && rep.op_mask.count_ones() >= 8,
        Prop::C06 => g(Ev::Eviction) && g(Ev::Reorder),
        Prop::C07 => g(Ev::Demotion),
        Prop::C08 => g(Ev::GhostHitFull),
        Prop::C09 => g(Ev::B1Hit) && g(Ev::B2Hit) && g(Ev::GhostHitFull),
        Prop::C10 => g(Ev::AdmitCompared),
        Prop::C12 => g(Ev::Eviction) || g(Ev::GhostHit),
        Prop::C14 => g(Ev::IterMixed),
        Prop::C15 => rep.cb_paths >= 2 && rep.cb_written,
        Prop::Trace => true,
    }
}

struct C02State {
    last: HashMap<u16, u32>,
    released: BTreeSet<u16>,
    ever_put: BTreeSet<u16>,
    evicted_once: BTreeSet<u16>,
    reput: BTreeSet<u16>,
    resident_before: BTreeMap<u16, bool>,
}

fn vio(prop: Prop, step: usize, kind: Kind, op: &Op, class: &str, msg: String) -> Violation {
    Violation { prop: prop.id(), step, msg, sig: sig(kind, op, class) }
}

fn run_inner<K: KeyLike>(case: &Case, prop: Prop, keep_trace: bool, keys: &[u16], rep: &mut CaseReport) -> Result<(), Violation> {
    let kind = case.kind;
    let cfg = &case.cfg;
    let dummy = Op::Len;
    // ---- construction
    let built = catch_unwind(AssertUnwindSafe(|| Sut::<K>::build(kind, cfg)));
    let mut sut = match built {
        Ok(Ok(s)) => s,
        Ok(Err(e)) => {
            rep.unbuildable = Some(e);
            return Ok(());
        }
        Err(_) => {
            let (loc, msg) = take_last_panic().unwrap_or_default();
            if prop == Prop::C05 {
                return Err(vio(prop, 0, kind, &dummy, &format!("ctor-{}", panic_class(&loc)), format!("constructor panicked at {loc}: {msg}")));
            }
            rep.aborted_by_panic = Some((loc, msg));
            return Ok(());
        }
    };
    let mut model = Model::new(kind, cfg);
    // an inconsistent BuildHasher (safe, contract-breaking user code): only memory safety is
    // demanded; the index cannot stay consistent, so no model, no audit, and a shrinking resize
    // is skipped (it may spin forever: a hang, not a memory hazard)
    let chaos = cfg.hs.iter().any(|h| matches!(h, HSpec::Chaos(_)));
    let mut model_ok = !chaos;
    let mut c02 = C02State {
        last: HashMap::new(),
        released: BTreeSet::new(),
        ever_put: BTreeSet::new(),
        evicted_once: BTreeSet::new(),
        reput: BTreeSet::new(),
        resident_before: keys.iter().map(|k| (*k, false)).collect(),
    };
    let mut mt = MT::new(cfg.samples);
    let need_view = !matches!(prop, Prop::C05) || keep_trace;
    let mut view = if need_view { sut.view() } else { View { lists: vec![], p: 0, est: None } };
    let mut cb_paths: BTreeSet<&'static str> = BTreeSet::new();
    let mut cb_written_value = false;
    let mut written_tokens: BTreeSet<u32> = BTreeSet::new();

    for (i, op) in case.ops.iter().enumerate() {
        if !op.supported(kind) {
            continue;
        }
        if chaos && (matches!(op, Op::Resize(n) if resize_target(*n) < sut.cap()) || matches!(op, Op::CloneSwap | Op::CloneDrop | Op::Iter { .. })) {
            continue;
        }
        rep.steps = i + 1;
        rep.op_mask |= 1u64 << op.idx();
        // ---- model expectation (before the real call: admission verdicts are read from the
        //      real estimator at decision time)
        let n_alts = if model_ok { model.n_alts(op) } else { 1 };
        let model_before = if n_alts > 1 { Some(model.clone()) } else { None };
        let mut exp = None;
        if model_ok {
            let est = |a: u16, b: u16| -> bool { sut.estimate(a).unwrap_or(0) < sut.estimate(b).unwrap_or(0) };
            exp = Some(model.apply(op, i, &est, &mut rep.stats, 0));
        }
        // ---- the real call
        let view_before = std::mem::replace(&mut view, View { lists: vec![], p: 0, est: None });
        let r = catch_unwind(AssertUnwindSafe(|| sut.apply(op, i)));
        let out = match r {
            Ok(o) => o,
            Err(_) => {
                let (loc, msg) = take_last_panic().unwrap_or_default();
                std::mem::forget(sut);
                if prop == Prop::C05 {
                    return Err(vio(prop, i, kind, op, &panic_class(&loc), format!("step {i} {op:?} panicked at {loc}: {msg}")));
                }
                if prop.model_based() && prop.kind_ok(kind) && model_ok {
                    return Err(vio(
                        prop,
                        i,
                        kind,
                        op,
                        &panic_class(&loc),
                        format!("step {i} {op:?}: the model defines the outcome {:?} but the call panicked at {loc}: {msg}", exp),
                    ));
                }
                if prop == Prop::C14 && matches!(op, Op::Iter { .. }) {
                    // every consumption path is defined on the Vec iterator of the same items
                    return Err(vio(prop, i, kind, op, &format!("iter-{}", panic_class(&loc)), format!("step {i} {op:?}: walking / consuming the iterator panicked at {loc}: {msg} (the same steps on a Vec iterator of the same items are well defined)")));
                }
                if matches!(prop, Prop::C03 | Prop::C04) {
                    // the panic itself belongs to C05, but what the library touched on the way
                    // to it (dead, freed or never initialised objects) is a memory-safety finding
                    let b = take_bad();
                    if !b.is_empty() {
                        return Err(vio(prop, i, kind, op, "dead-object-before-panic", format!("step {i} {op:?} (which then panicked at {loc}): {}", b.join("; "))));
                    }
                }
                rep.aborted_by_panic = Some((loc, msg));
                return Ok(());
            }
        };
        if need_view {
            let v = catch_unwind(AssertUnwindSafe(|| sut.view()));
            match v {
                Ok(v) => view = v,
                Err(_) => {
                    let (loc, msg) = take_last_panic().unwrap_or_default();
                    std::mem::forget(sut);
                    rep.aborted_by_panic = Some((loc, msg));
                    return Ok(());
                }
            }
        }
        if keep_trace {
            rep.trace.push(out.clone());
            rep.views.push(view.clone());
        }

        // ---- model comparison (alternatives, ARC ghost leniency)
        if model_ok {
            let mut matched = false;
            let mut first_msg = String::new();
            for alt in 0..n_alts {
                let e = if alt == 0 {
                    exp.clone().unwrap()
                } else {
                    let mut m2 = model_before.clone().unwrap();
                    let mut scratch = Stats::default();
                    let est = |_a: u16, _b: u16| -> bool { false };
                    let e = m2.apply(op, i, &est, &mut scratch, alt);
                    model = m2;
                    e
                };
                let out_ok = outs_equal(&e, &out);
                let mut state_ok = true;
                if need_view {
                    let ml = model.lists();
                    let nres = kind.n_resident_lists();
                    for li in 0..kind.n_lists() {
                        if kind == Kind::Arc && li >= nres {
                            continue;
                        }
                        if *ml[li] != view.lists[li] {
                            state_ok = false;
                        }
                    }
                    if kind == Kind::Arc {
                        if model.p() != view.p {
                            state_ok = false;
                        }
                        if state_ok && out_ok && !model.reconcile_arc_ghosts(&view.lists) {
                            state_ok = false;
                        }
                    }
                }
                if out_ok && state_ok {
                    matched = true;
                    break;
                }
                if alt == 0 {
                    first_msg = format!(
                        "step {i} {op:?}: real result {:?}, model {:?}; real state [{}] p={}, model state [{}] p={}",
                        out,
                        e,
                        fmt_lists(kind, &view.lists),
                        view.p,
                        fmt_lists(kind, &model.lists().into_iter().cloned().collect::<Vec<_>>()),
                        model.p()
                    );
                }
            }
            if !matched {
                model_ok = false;
                if prop.model_based() && prop.kind_ok(kind) {
                    let class = if exp.as_ref().map(|e| outs_equal(e, &out)).unwrap_or(false) { "state-mismatch" } else { "result-mismatch" };
                    return Err(vio(prop, i, kind, op, class, first_msg));
                }
                if prop == Prop::C14 && kind.has_iters() {
                    // an iterator step has its own, more precise report
                    if matches!(op, Op::Iter { .. }) {
                        c14_check(kind, op, i, &out, &view_before, &view)?;
                    }
                    // the iterators are documented to run in recency order: C14's own oracle ties
                    // them to the list as linked, this ties the list to the recency order the
                    // policy defines (same reference models as C06 / C08 / C09)
                    return Err(vio(prop, i, kind, op, "list-not-in-recency-order", format!("the lists the iterators walk are not in the documented (recency) order: {}", first_msg)));
                }
            }
        }

        // ---- per-property oracles
        match prop {
            Prop::C01 => c01_check(&sut, kind, cfg, op, i, &out, &view, keys)?,
            Prop::C02 => c02_check(&mut sut, kind, op, i, &out, &view_before, &view, keys, &mut c02, &mut rep.stats, case.keys == KeyMode::Str)?,
            Prop::C03 if chaos => {
                let b = take_bad();
                if !b.is_empty() {
                    return Err(vio(prop, i, kind, op, "dead-object-inconsistent-hasher", format!("step {i} {op:?} (with a BuildHasher that reseeds itself: safe user code): {}", b.join("; "))));
                }
            }
            Prop::C03 => {
                if let Err(e) = sut.audit() {
                    return Err(vio(prop, i, kind, op, "audit", format!("step {i} {op:?}: structural audit failed: {e}; state [{}]", fmt_lists(kind, &view.lists))));
                }
                let b = take_bad();
                if !b.is_empty() {
                    return Err(vio(prop, i, kind, op, "dead-object", format!("step {i} {op:?}: {}", b.join("; "))));
                }
            }
            Prop::C04 => c04_check(&sut, kind, op, i)?,
            Prop::C06 => {
                if kind.is_lru() {
                    // public iteration order must be the recency order (and iter_lru its reverse)
                    let fwd = sut.apply(&Op::Iter { list: 0, fam: 0, pat: vec![true; view.lists[0].len()], clone_at: 255, write: false, fin: 0 }, i);
                    let bwd = sut.apply(&Op::Iter { list: 0, fam: 1, pat: vec![true; view.lists[0].len()], clone_at: 255, write: false, fin: 0 }, i);
                    let items = |o: &Out| -> Vec<(u16, u32)> {
                        match o {
                            Out::Iter(io) => io.evs.iter().filter_map(|e| e.item.map(|(k, v)| (k as u16, v as u32))).collect(),
                            _ => vec![],
                        }
                    };
                    let f = items(&fwd);
                    let mut b = items(&bwd);
                    b.reverse();
                    if f != view.lists[0] || b != view.lists[0] {
                        return Err(vio(prop, i, kind, op, "iter-order", format!("step {i} {op:?}: iter() {:?} / reversed iter_lru() {:?} differ from the recency order {:?}", f, b, view.lists[0])));
                    }
                    if let Op::Resize(n) = op {
                        if sut.cap() != resize_target(*n) {
                            return Err(vio(prop, i, kind, op, "resize-cap", format!("step {i}: cap() is {} after resize({n})", sut.cap())));
                        }
                    }
                }
            }
            Prop::C10 => {
                if kind == Kind::Wtl {
                    c10_estimator_check(&sut, kind, cfg, op, i, keys, &mut mt, &view, &mut rep.stats)?;
                }
            }
            Prop::C12 => c12_check(&sut, kind, op, i, &out, &view_before, &view)?,
            Prop::C14 => c14_check(kind, op, i, &out, &view_before, &view)?,
            Prop::C15 => {
                if let Some(id) = sut.cb {
                    c15_check(&sut, kind, op, i, &out, &view_before, &view, id, &mut cb_paths, &mut cb_written_value, &written_tokens)?;
                }
            }
            _ => {}
        }
        // remember which tokens were written through references (C15 non-triviality)
        if matches!(op, Op::GetMut(_, _, true) | Op::PeekMut(_, _, true) | Op::GetLruMut(true) | Op::GetMruMut(true) | Op::PeekLruMut(true) | Op::PeekMruMut(true) | Op::PeekMutOrPut(_, true))
            || matches!(op, Op::Iter { write: true, .. })
        {
            for e in view.all() {
                if (e.1 >> 7) == (i as u32 + 1) {
                    written_tokens.insert(e.1);
                }
            }
        }
    }

    // ---- end of case: drop the cache
    let end_step = case.ops.len();
    if prop == Prop::C14 && need_view && case.ops.len() % 4 == 0 {
        c14_sweep(&mut sut, kind, end_step, &view, &mut rep.stats)?;
    }
    let dr = catch_unwind(AssertUnwindSafe(move || drop(sut)));
    if dr.is_err() {
        let (loc, msg) = take_last_panic().unwrap_or_default();
        if prop == Prop::C05 {
            return Err(vio(prop, end_step, kind, &dummy, &format!("drop-{}", panic_class(&loc)), format!("dropping the cache panicked at {loc}: {msg}")));
        }
        rep.aborted_by_panic = Some((loc, msg));
        return Ok(());
    }
    match prop {
        Prop::C03 => {
            let b = take_bad();
            if !b.is_empty() {
                return Err(vio(prop, end_step, kind, &dummy, "dead-object-at-drop", format!("while dropping the cache: {}", b.join("; "))));
            }
        }
        Prop::C04 => {
            let b = take_bad();
            if !b.is_empty() {
                return Err(vio(prop, end_step, kind, &dummy, "drop-hazard", format!("while dropping the cache: {}", b.join("; "))));
            }
            let live = live_ids();
            if !live.is_empty() {
                return Err(vio(prop, end_step, kind, &dummy, "leak-objects", format!("{} key/value object(s) still live after the cache was dropped (ids {:?})", live.len(), &live[..live.len().min(8)])));
            }
        }
        Prop::C15 => {
            rep.cb_paths = cb_paths.len();
            rep.cb_written = cb_written_value;
        }
        _ => {}
    }
    Ok(())
}

// ----------------------------------------------------------------------------- C01

fn c01_check<K: KeyLike>(sut: &Sut<K>, kind: Kind, cfg: &Cfg, op: &Op, i: usize, _out: &Out, view: &View, keys: &[u16]) -> Result<(), Violation> {
    let p = Prop::C01;
    let (len, cap, empty) = (sut.len(), sut.cap(), sut.is_empty());
    if len > cap {
        return Err(vio(p, i, kind, op, "len>cap", format!("step {i} {op:?}: len() {len} > cap() {cap}; state [{}]", fmt_lists(kind, &view.lists))));
    }
    let res_len = view.resident_len(kind);
    if len != res_len {
        return Err(vio(p, i, kind, op, "len!=resident", format!("step {i} {op:?}: len() {len} but {res_len} resident entries; state [{}]", fmt_lists(kind, &view.lists))));
    }
    if let Op::Resize(n) = op {
        if cap != resize_target(*n) {
            return Err(vio(p, i, kind, op, "resize-cap", format!("step {i}: cap() {cap} after resize({n})")));
        }
    }
    let l = |j: usize| view.lists[j].len();
    let bound = |what: &str, got: usize, max: usize| -> Result<(), Violation> {
        if got > max {
            Err(vio(p, i, kind, op, &format!("bound-{what}"), format!("step {i} {op:?}: partition `{what}` holds {got} > bound {max}; state [{}]", fmt_lists(kind, &view.lists))))
        } else {
            Ok(())
        }
    };
    match kind {
        Kind::Lru | Kind::LruCb | Kind::LruCbD => bound("lru", l(0), cap)?,
        Kind::Seg => {
            bound("probationary", l(0), cfg.a)?;
            bound("protected", l(1), cfg.b)?;
        }
        Kind::TwoQ => {
            bound("recent+frequent", l(0) + l(1), cfg.a)?;
            bound("ghost", l(2), cfg.ghost_cap_2q())?;
        }
        Kind::Arc => {
            bound("recent+frequent", l(0) + l(1), cfg.a)?;
            bound("recent_evict", l(2), cfg.a)?;
            bound("frequent_evict", l(3), cfg.a)?;
            if view.p > cfg.a {
                return Err(vio(p, i, kind, op, "p-range", format!("step {i} {op:?}: p = {} > size {}", view.p, cfg.a)));
            }
        }
        Kind::Wtl => {
            bound("window", l(0), cfg.a)?;
            bound("probationary", l(1), cfg.c)?;
            bound("protected", l(2), cfg.b)?;
        }
    }
    // a key is held in at most one partition
    let mut seen = BTreeSet::new();
    for e in view.all() {
        if !seen.insert(e.0) {
            return Err(vio(p, i, kind, op, "duplicate-key", format!("step {i} {op:?}: key {} is held more than once; state [{}]", e.0, fmt_lists(kind, &view.lists))));
        }
    }
    // len() == number of distinct keys with contains()
    let resident: BTreeSet<u16> = view.resident(kind).map(|e| e.0).collect();
    let mut n_contains = 0;
    for k in keys.iter().copied().chain(resident.iter().copied().filter(|k| !keys.contains(k))) {
        let c = sut.contains(k);
        if c {
            n_contains += 1;
        }
        if c != resident.contains(&k) {
            return Err(vio(p, i, kind, op, "contains", format!("step {i} {op:?}: contains({k}) = {c} but the resident partitions say {}; state [{}]", !c, fmt_lists(kind, &view.lists))));
        }
    }
    if n_contains != len {
        return Err(vio(p, i, kind, op, "len!=contains", format!("step {i} {op:?}: len() {len} but contains() is true for {n_contains} distinct keys")));
    }
    let nothing = view.lists.iter().all(|l| l.is_empty());
    if empty != nothing {
        return Err(vio(p, i, kind, op, "is_empty", format!("step {i} {op:?}: is_empty() = {empty} but retained entries: [{}]", fmt_lists(kind, &view.lists))));
    }
    // the public per-partition lengths agree with the partitions
    let caps = sut.public_caps();
    let exp_caps: Vec<Option<usize>> = match kind {
        Kind::Seg => vec![Some(cfg.a), Some(cfg.b)],
        Kind::Wtl => vec![Some(cfg.a), None, None],
        _ => caps.clone(),
    };
    if caps != exp_caps {
        return Err(vio(p, i, kind, op, "partition-cap", format!("step {i} {op:?}: partition capacities reported {:?}, configured {:?}", caps, exp_caps)));
    }
    Ok(())
}

// ----------------------------------------------------------------------------- C02

#[allow(clippy::too_many_arguments)]
fn c02_check<K: KeyLike>(sut: &mut Sut<K>, kind: Kind, op: &Op, i: usize, out: &Out, before: &View, after: &View, keys: &[u16], s: &mut C02State, st: &mut Stats, str_mode: bool) -> Result<(), Violation> {
    let p = Prop::C02;
    let tok = token(i, 0);
    let bad_val = |what: &str, k: u16, got: u32, s: &C02State| -> Violation {
        vio(p, i, kind, op, "wrong-value", format!("step {i} {op:?}: {what} for key {k} is {got}, but the value most recently stored for it is {:?}", s.last.get(&k)))
    };
    let released_err = |what: &str, k: u16| -> Violation {
        vio(p, i, kind, op, "resurrected", format!("step {i} {op:?}: {what}: key {k} is reported although it was never put / was released and not put again"))
    };
    let was_ghost = |k: u16| matches!(before.find(k), Some((li, _, _)) if li >= kind.n_resident_lists());
    let was_resident = |k: u16| matches!(before.find(k), Some((li, _, _)) if li < kind.n_resident_lists());
    // walking an iterator of one list (writing through it or not) leaves the values of every
    // OTHER list alone: a value may only change through a reference to its own entry
    if let Op::Iter { list, .. } = op {
        for (j, (b, a)) in before.lists.iter().zip(after.lists.iter()).enumerate() {
            if j != *list as usize && a != b {
                return Err(vio(p, i, kind, op, "iter-wrote-elsewhere", format!("step {i} {op:?}: an iterator over list `{}` changed list `{}`: {:?} -> {:?} (values that were never stored for these keys)", kind.list_names()[*list as usize], kind.list_names()[j], b, a)));
            }
        }
    }
    // account for what the PutResult reports
    let mut handle_pr = |pr: &PR, k: u16, s: &mut C02State| -> Result<(), Violation> {
        let prev = s.last.get(&k).copied();
        let prev_released = s.released.contains(&k) || !s.ever_put.contains(&k);
        if s.evicted_once.contains(&k) {
            s.reput.insert(k);
        }
        s.ever_put.insert(k);
        s.released.remove(&k);
        s.last.insert(k, tok);
        match pr {
            PR::Put => {}
            PR::Update(o) => {
                if prev_released {
                    return Err(released_err("Update(old)", k));
                }
                if Some(*o) != prev {
                    return Err(vio(p, i, kind, op, "wrong-old-value", format!("step {i} {op:?}: Update({o}) but the value previously stored for key {k} is {:?}", prev)));
                }
            }
            PR::Evicted(ek, ev) => {
                if *ek == k && *ev == tok {
                    // handed straight back
                    s.released.insert(k);
                } else {
                    if s.released.contains(ek) || !s.ever_put.contains(ek) {
                        return Err(released_err("Evicted", *ek));
                    }
                    if s.last.get(ek) != Some(ev) {
                        return Err(bad_val("evicted value", *ek, *ev, s));
                    }
                    s.released.insert(*ek);
                    s.evicted_once.insert(*ek);
                }
            }
            PR::EvictedAndUpdate((ek, ev), o) => {
                if prev_released {
                    return Err(released_err("EvictedAndUpdate(old)", k));
                }
                if Some(*o) != prev {
                    return Err(vio(p, i, kind, op, "wrong-old-value", format!("step {i} {op:?}: EvictedAndUpdate(.., {o}) but the value previously stored for key {k} is {:?}", prev)));
                }
                if s.released.contains(ek) || !s.ever_put.contains(ek) {
                    return Err(released_err("EvictedAndUpdate(evicted)", *ek));
                }
                if s.last.get(ek) != Some(ev) {
                    return Err(bad_val("evicted value", *ek, *ev, s));
                }
                s.released.insert(*ek);
                s.evicted_once.insert(*ek);
            }
        }
        Ok(())
    };
    let lookup_rule = |what: &str, k: u16, got: Option<u32>, s: &C02State| -> Result<(), Violation> {
        let expect_resident = *s.resident_before.get(&k).unwrap_or(&was_resident(k));
        match got {
            Some(v) => {
                if s.released.contains(&k) || !s.ever_put.contains(&k) {
                    return Err(released_err(what, k));
                }
                if s.last.get(&k) != Some(&v) {
                    return Err(bad_val(what, k, v, s));
                }
                if !expect_resident {
                    return Err(vio(p, i, kind, op, "lookup-disagrees", format!("step {i} {op:?}: {what} found key {k} although contains({k}) was false just before")));
                }
            }
            None => {
                if expect_resident {
                    return Err(vio(p, i, kind, op, "lookup-disagrees", format!("step {i} {op:?}: {what} missed key {k} although contains({k}) was true just before")));
                }
            }
        }
        Ok(())
    };
    match (op, out) {
        (Op::Put(k), Out::Put(pr)) | (Op::PutProtected(k), Out::Put(pr)) => handle_pr(pr, *k, s)?,
        (Op::PeekOrPut(k), Out::OrPut(a, b)) | (Op::PeekMutOrPut(k, _), Out::OrPut(a, b)) => {
            if let Some(v) = a {
                lookup_rule("peek_or_put", *k, Some(*v), s)?;
                if matches!(op, Op::PeekMutOrPut(_, true)) {
                    s.last.insert(*k, token(i, 1));
                }
            }
            if let Some(pr) = b {
                handle_pr(pr, *k, s)?;
            }
        }
        (Op::ContainsOrPut(k), Out::ContainsOrPut(_, Some(pr))) => handle_pr(pr, *k, s)?,
        (Op::Get(k, _), Out::V(v)) => {
            lookup_rule("get", *k, *v, s)?;
            if v.is_some() && s.reput.contains(k) {
                st.hit(Ev::HitAfterReput);
            }
        }
        (Op::GetMut(k, _, w), Out::V(v)) => {
            lookup_rule("get_mut", *k, *v, s)?;
            if v.is_some() && s.reput.contains(k) {
                st.hit(Ev::HitAfterReput);
            }
            if v.is_some() && *w {
                s.last.insert(*k, tok);
            }
        }
        (Op::Peek(k, _), Out::V(v)) => lookup_rule("peek", *k, *v, s)?,
        (Op::PeekMut(k, _, w), Out::V(v)) => {
            lookup_rule("peek_mut", *k, *v, s)?;
            if v.is_some() && *w {
                s.last.insert(*k, tok);
            }
        }
        (Op::Remove(k, _), Out::V(v)) => {
            match v {
                Some(x) => {
                    if s.released.contains(k) || !s.ever_put.contains(k) {
                        return Err(released_err("remove", *k));
                    }
                    if s.last.get(k) != Some(x) {
                        return Err(bad_val("removed value", *k, *x, s));
                    }
                }
                None => {
                    if was_resident(*k) {
                        return Err(vio(p, i, kind, op, "remove-missed", format!("step {i} {op:?}: remove({k}) returned None for a resident key")));
                    }
                }
            }
            if v.is_some() || !was_ghost(*k) || after.find(*k).is_none() {
                s.released.insert(*k);
            }
        }
        (Op::RemoveLru, Out::KV(Some((k, v)))) | (Op::RemoveLruFrom(_), Out::KV(Some((k, v)))) => {
            if s.released.contains(k) || !s.ever_put.contains(k) {
                return Err(released_err("remove_lru", *k));
            }
            if s.last.get(k) != Some(v) {
                return Err(bad_val("removed value", *k, *v, s));
            }
            s.released.insert(*k);
        }
        (Op::Purge, _) => {
            for k in s.ever_put.iter() {
                s.released.insert(*k);
            }
        }
        (Op::Resize(_), _) => {
            for e in before.all() {
                if after.find(e.0).is_none() {
                    s.released.insert(e.0);
                }
            }
        }
        (_, Out::KV(Some((k, v)))) => {
            // get_lru / get_mru / peek_lru / peek_mru (+ _mut) and the segment peeks
            if s.released.contains(k) || !s.ever_put.contains(k) {
                return Err(released_err(op.name(), *k));
            }
            if s.last.get(k) != Some(v) {
                return Err(bad_val(op.name(), *k, *v, s));
            }
        }
        _ => {}
    }
    // writes through references made by this step (incl. iterators): learn them from the view
    for e in after.all() {
        if (e.1 >> 7) == (i as u32 + 1) && e.1 != tok {
            s.last.insert(e.0, e.1);
        }
        if (e.1 >> 7) == (i as u32 + 1) && e.1 == tok && !matches!(op, Op::Put(_) | Op::PutProtected(_) | Op::PeekOrPut(_) | Op::PeekMutOrPut(..) | Op::ContainsOrPut(_)) {
            s.last.insert(e.0, e.1);
        }
    }
    // after every step: contains / peek / peek_mut agree for every key, values are the last stored
    for k in keys.iter().copied() {
        let c = sut.contains(k);
        let pk = sut.peek(k, false);
        let pm = match sut.apply(&Op::PeekMut(k, false, false), i) {
            Out::V(v) => v,
            _ => None,
        };
        if c != pk.is_some() || pk != pm {
            return Err(vio(p, i, kind, op, "lookups-disagree", format!("step {i} {op:?}: key {k}: contains = {c}, peek = {:?}, peek_mut = {:?}", pk, pm)));
        }
        if let Some(v) = pk {
            if s.released.contains(&k) || !s.ever_put.contains(&k) {
                return Err(released_err("peek", k));
            }
            if s.last.get(&k) != Some(&v) {
                return Err(bad_val("peek", k, v, s));
            }
        }
        if str_mode {
            let pb = sut.peek(k, true);
            let cb = match sut.apply(&Op::Contains(k, true), i) {
                Out::Bool(b) => b,
                _ => false,
            };
            if pb != pk || cb != c {
                return Err(vio(p, i, kind, op, "borrowed-form", format!("step {i} {op:?}: key {k}: lookup through &str gives peek {:?} / contains {cb}, through &String {:?} / {c}", pb, pk)));
            }
        }
        s.resident_before.insert(k, c);
    }
    // right after its own successful put a key is resident with the value just stored
    if let (Op::Put(k), Out::Put(pr)) = (op, out) {
        let handed_back = matches!(pr, PR::Evicted(ek, ev) if *ek == *k && *ev == tok);
        if !handed_back && sut.peek(*k, false) != Some(tok) {
            return Err(vio(p, i, kind, op, "put-not-visible", format!("step {i} {op:?}: after put({k}) peek({k}) is {:?}, expected {tok}", sut.peek(*k, false))));
        }
    }
    Ok(())
}

// ----------------------------------------------------------------------------- C04

fn c04_check<K: KeyLike>(sut: &Sut<K>, kind: Kind, op: &Op, i: usize) -> Result<(), Violation> {
    let p = Prop::C04;
    let b = take_bad();
    if !b.is_empty() {
        return Err(vio(p, i, kind, op, "drop-hazard", format!("step {i} {op:?}: {}", b.join("; "))));
    }
    // every live object is reachable through the cache, and every reachable object is live
    let mut reach = sut.ids();
    reach.sort_unstable();
    let b = take_bad();
    if !b.is_empty() {
        return Err(vio(p, i, kind, op, "reachable-dead", format!("step {i} {op:?}: {}", b.join("; "))));
    }
    let live = live_ids();
    if matches!(op, Op::Purge) && !live.is_empty() {
        // purge releases every retained key and value (ghosts included)
        return Err(vio(p, i, kind, op, "purge-retains", format!("step {i}: after purge {} key/value object(s) are still live (ids {:?}); still reachable through the cache: {}", live.len(), &live[..live.len().min(8)], reach.len())));
    }
    if reach != live {
        let leaked: Vec<u32> = live.iter().filter(|x| reach.binary_search(x).is_err()).copied().collect();
        let dead: Vec<u32> = reach.iter().filter(|x| live.binary_search(x).is_err()).copied().collect();
        let class = if !dead.is_empty() { "dropped-while-reachable" } else { "leak-objects" };
        return Err(vio(
            p,
            i,
            kind,
            op,
            class,
            format!("step {i} {op:?}: objects live but not reachable through the cache (leaked) {:?}; reachable but already dropped {:?}", &leaked[..leaked.len().min(8)], &dead[..dead.len().min(8)]),
        ));
    }
    Ok(())
}

// ----------------------------------------------------------------------------- C10 (estimator side)

#[allow(clippy::too_many_arguments)]
fn c10_estimator_check<K: KeyLike>(sut: &Sut<K>, kind: Kind, cfg: &Cfg, op: &Op, i: usize, keys: &[u16], mt: &mut MT, view: &View, st: &mut Stats) -> Result<(), Violation> {
    let p = Prop::C10;
    match op {
        Op::Get(k, _) | Op::GetMut(k, _, _) => {
            let h = sut.est_probe(*k).map(|x| x.0).unwrap_or(0);
            let r0 = mt.resets;
            // today's code spends two window ticks per lookup (try_reset + increment); an
            // implementation that ages less often only raises the real estimates
            mt.try_reset();
            mt.inc(h);
            if mt.resets > r0 {
                st.hit(Ev::EstimatorReset);
            }
        }
        Op::Purge => {
            mt.clear();
            // purge clears the estimator: every estimate is 0 and the dump equals that of a
            // freshly constructed estimator (same configuration, same pinned seed)
            for k in keys {
                if let Some((_, e, dk, _)) = sut.est_probe(*k) {
                    if e != 0 || dk {
                        return Err(vio(p, i, kind, op, "purge-estimator", format!("step {i}: after purge estimate({k}) = {e}, doorkeeper = {dk}")));
                    }
                }
            }
            if cfg.sketch_seed.is_some() || cfg!(feature = "nostd") {
                if let Ok(fresh) = Sut::<K>::build(kind, cfg) {
                    let fd = fresh.view().est;
                    if fd != view.est {
                        return Err(vio(p, i, kind, op, "purge-estimator-dump", format!("step {i}: after purge the estimator state differs from a fresh estimator's")));
                    }
                }
            }
        }
        _ => {}
    }
    for k in keys {
        if let Some((h, e, dk, _)) = sut.est_probe(*k) {
            let m = mt.est(h);
            if e < m || e > 16 {
                return Err(vio(p, i, kind, op, "estimate-bound", format!("step {i} {op:?}: estimate({k}) = {e}, exact aged access count {m} (must be >= it and <= 16)")));
            }
            if mt.dk(h) && !dk {
                return Err(vio(p, i, kind, op, "doorkeeper", format!("step {i} {op:?}: key {k} was accessed since the last reset but the doorkeeper does not contain it")));
            }
        }
    }
    Ok(())
}

// ----------------------------------------------------------------------------- C12

fn c12_check<K: KeyLike>(sut: &Sut<K>, kind: Kind, op: &Op, i: usize, out: &Out, before: &View, after: &View) -> Result<(), Violation> {
    let p = Prop::C12;
    let (k, pr) = match (op, out) {
        (Op::Put(k), Out::Put(pr)) | (Op::PutProtected(k), Out::Put(pr)) => (*k, pr),
        (Op::PeekOrPut(k), Out::OrPut(None, Some(pr))) | (Op::PeekMutOrPut(k, _), Out::OrPut(None, Some(pr))) => (*k, pr),
        (Op::ContainsOrPut(k), Out::ContainsOrPut(false, Some(pr))) => (*k, pr),
        (Op::PeekOrPut(k), Out::OrPut(a, b)) | (Op::PeekMutOrPut(k, _), Out::OrPut(a, b)) => {
            // exactly one half answers; a hit leaves everything in place
            if a.is_some() == b.is_some() {
                return Err(vio(p, i, kind, op, "or-put-shape", format!("step {i} {op:?}: result {:?}: exactly one of (existing value, put result) must be present", out)));
            }
            let _ = k;
            return Ok(());
        }
        _ => return Ok(()),
    };
    let t = token(i, 0);
    let mut r: BTreeMap<u16, u32> = BTreeMap::new();
    for e in before.all() {
        r.insert(e.0, e.1);
    }
    let mut r2: BTreeMap<u16, u32> = BTreeMap::new();
    for e in after.all() {
        if r2.insert(e.0, e.1).is_some() {
            return Err(vio(p, i, kind, op, "retained-twice", format!("step {i} {op:?} -> {:?}: key {} is retained twice afterwards; state [{}]", pr, e.0, fmt_lists(kind, &after.lists))));
        }
    }
    let ghosts_before: BTreeSet<u16> = before.lists[kind.n_resident_lists()..].iter().flatten().map(|e| e.0).collect();
    let mut expect = r.clone();
    let mut handed_back = false;
    let err = |class: &str, why: String| -> Violation {
        vio(p, i, kind, op, class, format!("step {i} {op:?} returned {:?}: {why}; before [{}] after [{}]", pr, fmt_lists(kind, &before.lists), fmt_lists(kind, &after.lists)))
    };
    match pr {
        PR::Put => {
            if r.contains_key(&k) {
                return Err(err("put-but-retained", format!("key {k} was already retained (value {})", r[&k])));
            }
            expect.insert(k, t);
        }
        PR::Update(o) => {
            match r.get(&k) {
                None => return Err(err("update-but-absent", format!("key {k} was not retained before"))),
                Some(old) if old != o => return Err(err("update-wrong-old", format!("the previously stored value of key {k} is {old}"))),
                _ => {}
            }
            expect.insert(k, t);
        }
        PR::Evicted(e, ev) => {
            if r.contains_key(&k) {
                return Err(err("evicted-but-retained", format!("key {k} was already retained, so the result must be Update/EvictedAndUpdate")));
            }
            if *e == k && *ev == t {
                if sut.cap() != 0 {
                    return Err(err("handed-back", format!("the new pair itself was handed back although cap() = {}", sut.cap())));
                }
                handed_back = true;
            } else {
                match r.get(e) {
                    None => return Err(err("evicted-unknown", format!("the reported entry {e} was not retained before"))),
                    Some(v) if v != ev => return Err(err("evicted-wrong-value", format!("the stored value of the reported entry {e} is {v}"))),
                    _ => {}
                }
                expect.remove(e);
                expect.insert(k, t);
            }
        }
        PR::EvictedAndUpdate((e, ev), o) => {
            match r.get(&k) {
                None => return Err(err("update-but-absent", format!("key {k} was not retained before"))),
                Some(old) if old != o => return Err(err("update-wrong-old", format!("the previously stored value of key {k} is {old}"))),
                _ => {}
            }
            if *e == k {
                return Err(err("evicted-self", format!("the evicted entry is the updated key itself")));
            }
            match r.get(e) {
                None => return Err(err("evicted-unknown", format!("the reported entry {e} was not retained before"))),
                Some(v) if v != ev => return Err(err("evicted-wrong-value", format!("the stored value of the reported entry {e} is {v}"))),
                _ => {}
            }
            expect.remove(e);
            expect.insert(k, t);
        }
    }
    if r2 != expect {
        // ARC may silently discard entries that were ghosts before this put
        // ... and evicts silently by design: the victim it moves to a ghost list (the least
        // recent entry of the recent or of the frequent list) may be trimmed as a ghost at once
        let mut ok = false;
        if kind == Kind::Arc {
            let victims: Vec<u16> = before.lists[..2].iter().filter_map(|l| l.last().map(|e| e.0)).collect();
            let gone_residents: Vec<&u16> = expect.keys().filter(|kk| !r2.contains_key(kk) && !ghosts_before.contains(kk)).collect();
            // only a put of a brand-new key trims the ghost lists; on an update or a ghost
            // revival the victim stays remembered, so no resident entry may vanish there
            let may_lose_victim = matches!(pr, PR::Put);
            ok = r2.iter().all(|(kk, vv)| expect.get(kk) == Some(vv))
                && gone_residents.len() <= if may_lose_victim { 1 } else { 0 }
                && gone_residents.iter().all(|kk| victims.contains(kk) && **kk != k);
        }
        if !ok {
            let gone: Vec<_> = expect.iter().filter(|(kk, _)| !r2.contains_key(kk)).collect();
            let extra: Vec<_> = r2.iter().filter(|(kk, vv)| expect.get(kk) != Some(vv)).collect();
            return Err(err("retained-set", format!("retained set is not (before + key - reported): left unreported {:?}, unexpected {:?}", gone, extra)));
        }
    }
    if !handed_back {
        let pk = sut.peek(k, false);
        if pk != Some(t) {
            return Err(err("not-resident-after-put", format!("peek({k}) afterwards is {:?}, expected {t}", pk)));
        }
    }
    Ok(())
}

// ----------------------------------------------------------------------------- C14

fn c14_check(kind: Kind, op: &Op, i: usize, out: &Out, before: &View, after: &View) -> Result<(), Violation> {
    let p = Prop::C14;
    if let (Op::Iter { list, fam, pat, clone_at, write, fin }, Out::Iter(got)) = (op, out) {
        let li = *list as usize;
        let mut l = before.lists[li].clone();
        let exp = expected_iter(&mut l, *fam, pat, *clone_at, *write, i, *fin);
        if &exp != got {
            return Err(vio(
                p,
                i,
                kind,
                op,
                &format!("walk-{}", FAMILIES[*fam as usize]),
                format!("step {i}: {}() over {:?} with pattern {:?} (true=next, false=next_back), then consumption path {} (fin code {}): got {:?}, expected {:?}", FAMILIES[*fam as usize], before.lists[li], pat, fin_name(*fin), *fin, got, exp),
            ));
        }
        for (j, lj) in after.lists.iter().enumerate() {
            let want = if j == li { &l } else { &before.lists[j] };
            if lj != want {
                return Err(vio(p, i, kind, op, "iter-changed-state", format!("step {i}: after {}() list `{}` is {:?}, expected {:?}", FAMILIES[*fam as usize], kind.list_names()[j], lj, want)));
            }
        }
    }
    Ok(())
}

/// for small lists, *all* next/next_back interleavings of length len+2, every family
fn c14_sweep<K: KeyLike>(sut: &mut Sut<K>, kind: Kind, i: usize, view: &View, st: &mut Stats) -> Result<(), Violation> {
    let nfam: u8 = if kind.is_lru() { 12 } else { 10 };
    let mut cur = view.clone();
    for li in 0..kind.n_lists() {
        let n = cur.lists[li].len();
        if n > 3 {
            continue;
        }
        let plen = n + 2;
        for fam in 0..nfam {
            for bits in 0..(1u32 << plen) {
                let pat: Vec<bool> = (0..plen).map(|b| bits >> b & 1 == 1).collect();
                let ca = if fam_is_mut(fam) { 255 } else { (bits as usize % (plen + 2)) as u8 };
                let write = fam_is_mut(fam) && bits % 3 == 0;
                // the std consumption path rotates with the pattern (all 13 x several arguments per list)
                let fin = ((bits as usize * 7 + fam as usize * 3 + li) % 256) as u8;
                let op = Op::Iter { list: li as u8, fam, pat, clone_at: ca, write, fin };
                let out = sut.apply(&op, i);
                let after = sut.view();
                if n >= 2 && bits != 0 && bits != (1 << plen) - 1 {
                    st.hit(Ev::IterMixed);
                }
                c14_check(kind, &op, i, &out, &cur, &after)?;
                cur = after;
            }
        }
    }
    Ok(())
}

// ----------------------------------------------------------------------------- C15

#[allow(clippy::too_many_arguments)]
fn c15_check<K: KeyLike>(sut: &Sut<K>, kind: Kind, op: &Op, i: usize, out: &Out, before: &View, after: &View, cb_id: usize, paths: &mut BTreeSet<&'static str>, written: &mut bool, written_tokens: &BTreeSet<u32>) -> Result<(), Violation> {
    let p = Prop::C15;
    let log = take_cb_log(cb_id);
    if matches!(op, Op::CloneSwap | Op::CloneDrop) {
        // cloning never makes an entry leave; the clone's own log starts empty
        if !log.is_empty() {
            return Err(vio(p, i, kind, op, "callback-on-clone", format!("step {i} {op:?}: callback invoked {:?} while cloning", log)));
        }
        return Ok(());
    }
    let _ = sut;
    // departures: entries of the list before that are gone afterwards, least recent first,
    // with the value they held at that moment
    let mut dep: Vec<(u16, u32)> = before.lists[0].iter().rev().filter(|e| after.find(e.0).is_none()).copied().collect();
    // an eviction by put of a *new* key recycles: key gone, fine. an Update never departs.
    let tok = token(i, 0);
    let mut alt: Option<Vec<(u16, u32)>> = None;
    if let Out::Put(PR::Evicted(ek, ev)) | Out::OrPut(None, Some(PR::Evicted(ek, ev))) | Out::ContainsOrPut(false, Some(PR::Evicted(ek, ev))) = out {
        if *ev == tok && Some(*ek) == op.key() {
            // capacity 0: the pair is handed straight back; the statement does not say
            // whether that counts as "leaving the cache"
            alt = Some(vec![(*ek, *ev)]);
        }
    }
    // a key evicted and put again within one op cannot happen in RawLRU
    dep.retain(|_| true);
    if log != dep && Some(&log) != alt.as_ref() {
        return Err(vio(
            p,
            i,
            kind,
            op,
            "callback-log",
            format!("step {i} {op:?} -> {:?}: callback invocations {:?}, entries that left the cache (least recent first, current values) {:?}; before {:?} after {:?}", out, log, dep, before.lists[0], after.lists[0]),
        ));
    }
    if !log.is_empty() {
        paths.insert(match op {
            Op::Remove(..) => "remove",
            Op::RemoveLru => "remove_lru",
            Op::Purge => "purge",
            Op::Resize(_) => "resize",
            _ => "eviction",
        });
        if log.iter().any(|e| written_tokens.contains(&e.1)) {
            *written = true;
        }
    }
    Ok(())
}
