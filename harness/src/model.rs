//! Reference models, written from the property statements (DESIGN §4). Plain `Vec<(key,
//! value)>` lists, most recent first.

use crate::ops::*;

pub type L = Vec<(u16, u32)>;

fn pos(l: &L, k: u16) -> Option<usize> {
    l.iter().position(|e| e.0 == k)
}

/// classification events (counted per case and per run)
#[derive(Clone, Copy, Debug, PartialEq, Eq)]
#[repr(usize)]
pub enum Ev {
    ReachedFull,
    AdmitAfterFull,
    Eviction,
    Update,
    Promotion,
    Demotion,
    GhostHit,
    GhostHitFull,
    GhostOverflow,
    ReviveOwnVictim,
    VictimRecent,
    VictimFrequent,
    VictimFallback,
    PUp,
    PDown,
    PSaturated,
    B1Hit,
    B2Hit,
    AdmitCompared,
    AdmitRejected,
    AdmitAccepted,
    AdmitFree,
    WindowHitPut,
    WindowHitPutDemote,
    ResizeShrink,
    ResizeGrow,
    ResizeZero,
    PutAtCapZero,
    PurgeNonEmpty,
    CloneNonEmpty,
    WriteThrough,
    Reorder,
    Removal,
    RemoveGhost,
    HitAfterReput,
    IterMixed,
    IterWrite,
    IterClone,
    PutProtectedProbationary,
    PutProtectedOverflow,
    ReadOnlyOnNonMru,
    EstimatorReset,
    ExtremeLimit,
    IterFinish,
    BurstCleared,
    N,
}

pub const EV_NAMES: [&str; Ev::N as usize] = [
    "reached_full",
    "admit_after_full",
    "eviction",
    "update",
    "promotion",
    "demotion",
    "ghost_hit",
    "ghost_hit_while_full",
    "ghost_overflow",
    "revived_key_was_ghost_overflow_victim",
    "victim_from_recent",
    "victim_from_frequent",
    "victim_fallback",
    "p_up",
    "p_down",
    "p_saturated",
    "b1_hit",
    "b2_hit",
    "admission_compared",
    "admission_rejected",
    "admission_accepted",
    "admission_free",
    "window_hit_put",
    "window_hit_put_demoted_protected",
    "resize_shrink",
    "resize_grow",
    "resize_zero",
    "put_at_capacity_zero",
    "purge_non_empty",
    "clone_non_empty",
    "write_through_reference",
    "reorder",
    "removal",
    "remove_ghost",
    "hit_after_reput_of_evicted",
    "iter_mixed_ends",
    "iter_write",
    "iter_clone",
    "put_protected_on_probationary",
    "put_protected_overflow",
    "read_only_on_non_mru",
    "estimator_reset",
    "room_left_checked_at_extreme_limit",
    "iter_std_consumption_path_on_non_empty_rest",
    "clear_after_tracking_more_than_1024_keys",
];

#[derive(Clone, Debug)]
pub struct Stats {
    pub ev: [u64; Ev::N as usize],
}
impl Default for Stats {
    fn default() -> Self {
        Stats { ev: [0; Ev::N as usize] }
    }
}
impl Stats {
    #[inline]
    pub fn hit(&mut self, e: Ev) {
        self.ev[e as usize] += 1;
    }
    pub fn get(&self, e: Ev) -> u64 {
        self.ev[e as usize]
    }
    pub fn add(&mut self, o: &Stats) {
        for i in 0..self.ev.len() {
            self.ev[i] += o.ev[i];
        }
    }
}

#[derive(Clone, Debug, PartialEq)]
pub enum M {
    Lru { cap: usize, l: L },
    Seg { pc: usize, tc: usize, prob: L, prot: L },
    TwoQ { size: usize, quota: usize, gcap: usize, recent: L, freq: L, ghost: L },
    Arc { size: usize, p: usize, t1: L, t2: L, b1: L, b2: L },
    Wtl { wc: usize, pc: usize, tc: usize, win: L, prob: L, prot: L },
}

#[derive(Clone, Debug)]
pub struct Model {
    pub kind: Kind,
    pub m: M,
    /// list index into which the last op pushed a fresh victim (ARC ghost leniency)
    pub ghosted: Option<usize>,
    /// ARC: the two ghost lists of the last put *before* the model trimmed them (the
    /// statement does not pin the trimming rule, so keeping more ghosts is accepted too)
    pub ghost_max: Option<(L, L)>,
}

/// expected result of walking an iterator over `list` (MRU first); applies writes
pub fn expected_iter(list: &mut L, fam: u8, pat: &[bool], clone_at: u8, write: bool, i: usize, fin: u8) -> IterOut {
    let n = list.len();
    let lru = fam_is_lru(fam);
    let idx = |s: usize| if lru { n - 1 - s } else { s };
    let writes = write && fam_is_mut(fam);
    let shared = !fam_is_mut(fam);
    let (mut f, mut b) = (0usize, n);
    let item = |list: &L, s: usize| -> (i32, i64) {
        let e = list[idx(s)];
        (if fam_has_key(fam) { e.0 as i32 } else { -1 }, if fam_has_val(fam) { e.1 as i64 } else { -1 })
    };
    let mut walk = |list: &mut L, f: &mut usize, b: &mut usize, pat: &[bool], j0: usize, writes: bool| -> Vec<IterEv> {
        let mut evs = vec![];
        for (j, front) in pat.iter().enumerate() {
            let it = if *f < *b {
                let s = if *front {
                    *f += 1;
                    *f - 1
                } else {
                    *b -= 1;
                    *b
                };
                if writes {
                    list[idx(s)].1 = token(i, j0 + j);
                }
                Some(item(list, s))
            } else {
                None
            };
            evs.push(IterEv { front: *front, item: it, hint: (*b - *f, Some(*b - *f)), len: *b - *f });
        }
        evs
    };
    // the rest, consumed through the same std path on a Vec iterator of the expected items
    let finish = |list: &L, f: usize, b: usize| {
        let rest: Vec<(i32, i64)> = (f..b).map(|s| item(list, s)).collect();
        crate::ops::iter_finish(rest.into_iter(), fin, &mut |x| x)
    };
    let ca = clone_at as usize;
    if shared && ca <= pat.len() {
        let mut evs = walk(list, &mut f, &mut b, &pat[..ca], 0, false);
        let (mut cf, mut cb) = (f, b);
        evs.extend(walk(list, &mut f, &mut b, &pat[ca..], ca, false));
        let rev: Vec<bool> = pat[ca..].iter().rev().map(|x| !*x).collect();
        let clone_evs = walk(list, &mut cf, &mut cb, &rev, 0, false);
        let (fin_items, fin_lens, count_rest) = finish(list, f, b);
        IterOut { initial_hint: (n, Some(n)), evs, clone_evs, count_rest, clone_count_rest: cb - cf, fused_ok: true, fin_items, fin_lens }
    } else {
        let evs = walk(list, &mut f, &mut b, pat, 0, writes);
        let (fin_items, fin_lens, count_rest) = finish(list, f, b);
        IterOut { initial_hint: (n, Some(n)), evs, clone_evs: vec![], count_rest, clone_count_rest: 0, fused_ok: true, fin_items, fin_lens }
    }
}

fn seg_promote(prob: &mut L, prot: &mut L, tc: usize, e: (u16, u32), st: &mut Stats) {
    st.hit(Ev::Promotion);
    prot.insert(0, e);
    if prot.len() > tc {
        let d = prot.pop().unwrap();
        prob.insert(0, d);
        st.hit(Ev::Demotion);
    }
}

fn seg_put(prob: &mut L, prot: &mut L, pc: usize, tc: usize, k: u16, v: u32, st: &mut Stats) -> PR {
    if let Some(i) = pos(prot, k) {
        let (_, old) = prot.remove(i);
        prot.insert(0, (k, v));
        st.hit(Ev::Update);
        return PR::Update(old);
    }
    if let Some(i) = pos(prob, k) {
        let (_, old) = prob.remove(i);
        seg_promote(prob, prot, tc, (k, v), st);
        st.hit(Ev::Update);
        return PR::Update(old);
    }
    prob.insert(0, (k, v));
    if prob.len() > pc {
        let e = prob.pop().unwrap();
        st.hit(Ev::Eviction);
        PR::Evicted(e.0, e.1)
    } else {
        PR::Put
    }
}

fn seg_get(prob: &mut L, prot: &mut L, tc: usize, k: u16, w: Option<u32>, st: &mut Stats) -> Option<u32> {
    if let Some(i) = pos(prot, k) {
        let mut e = prot.remove(i);
        let old = e.1;
        if let Some(t) = w {
            e.1 = t;
        }
        if i != 0 {
            st.hit(Ev::Reorder);
        }
        prot.insert(0, e);
        return Some(old);
    }
    if let Some(i) = pos(prob, k) {
        let mut e = prob.remove(i);
        let old = e.1;
        if let Some(t) = w {
            e.1 = t;
        }
        seg_promote(prob, prot, tc, e, st);
        return Some(old);
    }
    None
}

fn peek_in(lists: &mut [&mut L], k: u16, w: Option<u32>) -> Option<u32> {
    for l in lists.iter_mut() {
        if let Some(i) = pos(l, k) {
            let old = l[i].1;
            if let Some(t) = w {
                l[i].1 = t;
            }
            return Some(old);
        }
    }
    None
}

impl Model {
    pub fn new(kind: Kind, cfg: &Cfg) -> Model {
        let m = match kind {
            Kind::Lru | Kind::LruCb | Kind::LruCbD => M::Lru { cap: cfg.a, l: vec![] },
            Kind::Seg => M::Seg { pc: cfg.a, tc: cfg.b, prob: vec![], prot: vec![] },
            Kind::TwoQ => M::TwoQ {
                size: cfg.a,
                quota: cfg.quota_2q(),
                gcap: cfg.ghost_cap_2q(),
                recent: vec![],
                freq: vec![],
                ghost: vec![],
            },
            Kind::Arc => M::Arc { size: cfg.a, p: 0, t1: vec![], t2: vec![], b1: vec![], b2: vec![] },
            Kind::Wtl => M::Wtl { wc: cfg.a, tc: cfg.b, pc: cfg.c, win: vec![], prob: vec![], prot: vec![] },
        };
        Model { kind, m, ghosted: None, ghost_max: None }
    }

    pub fn lists(&self) -> Vec<&L> {
        match &self.m {
            M::Lru { l, .. } => vec![l],
            M::Seg { prob, prot, .. } => vec![prob, prot],
            M::TwoQ { recent, freq, ghost, .. } => vec![recent, freq, ghost],
            M::Arc { t1, t2, b1, b2, .. } => vec![t1, t2, b1, b2],
            M::Wtl { win, prob, prot, .. } => vec![win, prob, prot],
        }
    }
    pub fn lists_mut(&mut self) -> Vec<&mut L> {
        match &mut self.m {
            M::Lru { l, .. } => vec![l],
            M::Seg { prob, prot, .. } => vec![prob, prot],
            M::TwoQ { recent, freq, ghost, .. } => vec![recent, freq, ghost],
            M::Arc { t1, t2, b1, b2, .. } => vec![t1, t2, b1, b2],
            M::Wtl { win, prob, prot, .. } => vec![win, prob, prot],
        }
    }
    pub fn p(&self) -> usize {
        match &self.m {
            M::Arc { p, .. } => *p,
            _ => 0,
        }
    }
    pub fn resident_len(&self) -> usize {
        self.lists()[..self.kind.n_resident_lists()].iter().map(|l| l.len()).sum()
    }
    pub fn total_cap(&self) -> usize {
        match &self.m {
            M::Lru { cap, .. } => *cap,
            M::Seg { pc, tc, .. } => pc + tc,
            M::TwoQ { size, .. } => *size,
            M::Arc { size, .. } => *size,
            M::Wtl { wc, pc, tc, .. } => wc + pc + tc,
        }
    }
    /// where is key `k`: (list index, position)
    pub fn find(&self, k: u16) -> Option<(usize, usize)> {
        for (li, l) in self.lists().iter().enumerate() {
            if let Some(p) = pos(l, k) {
                return Some((li, p));
            }
        }
        None
    }
    pub fn is_ghost(&self, k: u16) -> bool {
        matches!(self.find(k), Some((li, _)) if li >= self.kind.n_resident_lists())
    }
    pub fn is_resident(&self, k: u16) -> bool {
        matches!(self.find(k), Some((li, _)) if li < self.kind.n_resident_lists())
    }

    /// number of alternative outcomes the statements allow for this op in this state
    pub fn n_alts(&self, op: &Op) -> usize {
        match (&self.m, op) {
            (M::TwoQ { .. }, Op::Remove(k, _)) | (M::Arc { .. }, Op::Remove(k, _)) if self.is_ghost(*k) => 3,
            (M::Arc { .. }, Op::Purge) => 2,
            (M::Seg { prot, tc, .. }, Op::PutProtected(k)) if self.find(*k).is_none() && prot.len() >= *tc => 2,
            _ => 1,
        }
    }

    /// Apply `op`. `est(a, b)`: does the real estimator rank candidate `a` strictly below
    /// victim `b` right now (W-TinyLFU only). `alt` selects among allowed outcomes.
    pub fn apply(&mut self, op: &Op, i: usize, est: &dyn Fn(u16, u16) -> bool, st: &mut Stats, alt: usize) -> Out {
        self.ghosted = None;
        self.ghost_max = None;
        let kind = self.kind;
        if !op.supported(kind) {
            return Out::Unsupported;
        }
        let was_full = self.resident_len() >= self.total_cap();
        let tok = token(i, 0);
        // ops common to all kinds that the model answers from its lists
        match op {
            Op::Len => return Out::Num(self.resident_len() as u64),
            Op::Cap => return Out::Num(self.total_cap() as u64),
            Op::IsEmpty => return Out::Bool(self.lists().iter().all(|l| l.is_empty())),
            Op::Debug => return Out::Text(String::new()),
            Op::CloneSwap | Op::CloneDrop => {
                if self.resident_len() > 0 {
                    st.hit(Ev::CloneNonEmpty);
                }
                return Out::Unit;
            }
            Op::Contains(k, _) => return Out::Bool(self.is_resident(*k)),
            Op::Peek(k, _) | Op::PeekMut(k, _, _) => {
                let w = match op {
                    Op::PeekMut(_, _, true) => Some(tok),
                    _ => None,
                };
                if let Some((li, p)) = self.find(*k) {
                    if li < kind.n_resident_lists() && p != 0 {
                        st.hit(Ev::ReadOnlyOnNonMru);
                    }
                }
                // lookup order is irrelevant: a key is in at most one resident list
                let nres = kind.n_resident_lists();
                let mut ls = self.lists_mut();
                let r = peek_in(&mut ls[..nres], *k, w);
                if r.is_some() && w.is_some() {
                    st.hit(Ev::WriteThrough);
                }
                return Out::V(r);
            }
            Op::Iter { list, fam, pat, clone_at, write, fin } => {
                let mut ls = self.lists_mut();
                let l = &mut *ls[*list as usize];
                if l.len() >= 2 && pat.iter().any(|b| *b) && pat.iter().any(|b| !*b) {
                    st.hit(Ev::IterMixed);
                }
                if *write && fam_is_mut(*fam) && !l.is_empty() && !pat.is_empty() {
                    st.hit(Ev::IterWrite);
                }
                if !fam_is_mut(*fam) && (*clone_at as usize) <= pat.len() {
                    st.hit(Ev::IterClone);
                }
                if (*fin >= crate::ops::FIN_EXT || *fin % crate::ops::N_FIN != 0) && l.len() > pat.len() {
                    st.hit(Ev::IterFinish);
                }
                return Out::Iter(expected_iter(l, *fam, pat, *clone_at, *write, i, *fin));
            }
            Op::Purge => {
                if self.lists().iter().any(|l| !l.is_empty()) {
                    st.hit(Ev::PurgeNonEmpty);
                }
                for l in self.lists_mut() {
                    l.clear();
                }
                if let M::Arc { p, .. } = &mut self.m {
                    // the statement does not say what purge does to p: unchanged (alt 0) or 0 (alt 1)
                    if alt == 1 {
                        *p = 0;
                    }
                }
                return Out::Unit;
            }
            _ => {}
        }
        let out = match &mut self.m {
            M::Lru { cap, l } => match op {
                Op::Lens => Out::Nums(vec![l.len() as u64, *cap as u64]),
                Op::Put(k) => Out::Put(lru_put(l, *cap, *k, tok, st)),
                Op::Get(k, _) | Op::GetMut(k, _, _) => {
                    let w = matches!(op, Op::GetMut(_, _, true));
                    Out::V(pos(l, *k).map(|p| {
                        let mut e = l.remove(p);
                        let old = e.1;
                        if w {
                            e.1 = tok;
                            st.hit(Ev::WriteThrough);
                        }
                        if p != 0 {
                            st.hit(Ev::Reorder);
                        }
                        l.insert(0, e);
                        old
                    }))
                }
                Op::Remove(k, _) => Out::V(pos(l, *k).map(|p| {
                    st.hit(Ev::Removal);
                    l.remove(p).1
                })),
                Op::Resize(n) => {
                    let n = resize_target(*n);
                    let mut ev = 0u64;
                    if n != *cap {
                        if n < *cap {
                            st.hit(Ev::ResizeShrink);
                        } else {
                            st.hit(Ev::ResizeGrow);
                        }
                        if n == 0 {
                            st.hit(Ev::ResizeZero);
                        }
                        while l.len() > n {
                            l.pop();
                            ev += 1;
                            st.hit(Ev::Eviction);
                        }
                        *cap = n;
                    }
                    Out::Num(ev)
                }
                Op::GetLru | Op::GetLruMut(_) => {
                    let w = matches!(op, Op::GetLruMut(true));
                    Out::KV(l.pop().map(|mut e| {
                        let old = e;
                        if w {
                            e.1 = tok;
                            st.hit(Ev::WriteThrough);
                        }
                        if !l.is_empty() {
                            st.hit(Ev::Reorder);
                        }
                        l.insert(0, e);
                        old
                    }))
                }
                Op::GetMru | Op::PeekMru => Out::KV(l.first().copied()),
                Op::PeekLru => {
                    if l.len() > 1 {
                        st.hit(Ev::ReadOnlyOnNonMru);
                    }
                    Out::KV(l.last().copied())
                }
                Op::GetMruMut(w) | Op::PeekMruMut(w) => Out::KV(l.first_mut().map(|e| {
                    let old = *e;
                    if *w {
                        e.1 = tok;
                        st.hit(Ev::WriteThrough);
                    }
                    old
                })),
                Op::PeekLruMut(w) => {
                    if l.len() > 1 {
                        st.hit(Ev::ReadOnlyOnNonMru);
                    }
                    Out::KV(l.last_mut().map(|e| {
                        let old = *e;
                        if *w {
                            e.1 = tok;
                            st.hit(Ev::WriteThrough);
                        }
                        old
                    }))
                }
                Op::PeekOrPut(k) | Op::PeekMutOrPut(k, _) => {
                    let w = matches!(op, Op::PeekMutOrPut(_, true));
                    match pos(l, *k) {
                        Some(p) => {
                            let old = l[p].1;
                            if w {
                                l[p].1 = token(i, 1);
                                st.hit(Ev::WriteThrough);
                            }
                            Out::OrPut(Some(old), None)
                        }
                        None => Out::OrPut(None, Some(lru_put(l, *cap, *k, tok, st))),
                    }
                }
                Op::ContainsOrPut(k) => match pos(l, *k) {
                    Some(_) => Out::ContainsOrPut(true, None),
                    None => Out::ContainsOrPut(false, Some(lru_put(l, *cap, *k, tok, st))),
                },
                Op::RemoveLru => Out::KV(l.pop().inspect(|_| st.hit(Ev::Removal))),
                _ => Out::Unsupported,
            },
            M::Seg { pc, tc, prob, prot } => match op {
                Op::Lens => Out::Nums(vec![prob.len() as u64, prot.len() as u64, *pc as u64, *tc as u64]),
                Op::Put(k) => Out::Put(seg_put(prob, prot, *pc, *tc, *k, tok, st)),
                Op::Get(k, _) => Out::V(seg_get(prob, prot, *tc, *k, None, st)),
                Op::GetMut(k, _, w) => {
                    let r = seg_get(prob, prot, *tc, *k, if *w { Some(tok) } else { None }, st);
                    if r.is_some() && *w {
                        st.hit(Ev::WriteThrough);
                    }
                    Out::V(r)
                }
                Op::Remove(k, _) => {
                    let r = pos(prob, *k).map(|p| prob.remove(p).1).or_else(|| pos(prot, *k).map(|p| prot.remove(p).1));
                    if r.is_some() {
                        st.hit(Ev::Removal);
                    }
                    Out::V(r)
                }
                Op::PutProtected(k) => {
                    if let Some(p) = pos(prot, *k) {
                        let (_, old) = prot.remove(p);
                        prot.insert(0, (*k, tok));
                        st.hit(Ev::Update);
                        Out::Put(PR::Update(old))
                    } else if let Some(p) = pos(prob, *k) {
                        // already retained: it moves to protected (and nowhere else)
                        st.hit(Ev::PutProtectedProbationary);
                        let (_, old) = prob.remove(p);
                        seg_promote(prob, prot, *tc, (*k, tok), st);
                        st.hit(Ev::Update);
                        Out::Put(PR::Update(old))
                    } else if prot.len() < *tc {
                        prot.insert(0, (*k, tok));
                        Out::Put(PR::Put)
                    } else {
                        st.hit(Ev::PutProtectedOverflow);
                        if alt == 0 {
                            // documented: "force to put an entry in protected LRU" = LRU put there
                            let e = prot.pop().unwrap();
                            prot.insert(0, (*k, tok));
                            st.hit(Ev::Eviction);
                            Out::Put(PR::Evicted(e.0, e.1))
                        } else {
                            // equally within the statement: overflow handled by demotion
                            prot.insert(0, (*k, tok));
                            let d = prot.pop().unwrap();
                            prob.insert(0, d);
                            if prob.len() > *pc {
                                let e = prob.pop().unwrap();
                                Out::Put(PR::Evicted(e.0, e.1))
                            } else {
                                Out::Put(PR::Put)
                            }
                        }
                    }
                }
                Op::RemoveLruFrom(0) => Out::KV(prob.pop().inspect(|_| st.hit(Ev::Removal))),
                Op::RemoveLruFrom(_) => Out::KV(prot.pop().inspect(|_| st.hit(Ev::Removal))),
                Op::SegPeek { seg, mru, mutable, write } => {
                    let l = if *seg == 0 { prob } else { prot };
                    if !*mru && l.len() > 1 {
                        st.hit(Ev::ReadOnlyOnNonMru);
                    }
                    let e = if *mru { l.first_mut() } else { l.last_mut() };
                    Out::KV(e.map(|e| {
                        let old = *e;
                        if *mutable && *write {
                            e.1 = tok;
                            st.hit(Ev::WriteThrough);
                        }
                        old
                    }))
                }
                _ => Out::Unsupported,
            },
            M::TwoQ { size, quota, gcap, recent, freq, ghost } => match op {
                Op::Lens => Out::Nums(vec![recent.len() as u64, freq.len() as u64, ghost.len() as u64]),
                Op::Put(k) => Out::Put(twoq_put(*size, *quota, *gcap, recent, freq, ghost, *k, tok, st)),
                Op::Get(k, _) | Op::GetMut(k, _, _) => {
                    let w = matches!(op, Op::GetMut(_, _, true));
                    let r = if let Some(p) = pos(freq, *k) {
                        let mut e = freq.remove(p);
                        let old = e.1;
                        if w {
                            e.1 = tok;
                        }
                        if p != 0 {
                            st.hit(Ev::Reorder);
                        }
                        freq.insert(0, e);
                        Some(old)
                    } else if let Some(p) = pos(recent, *k) {
                        let mut e = recent.remove(p);
                        let old = e.1;
                        if w {
                            e.1 = tok;
                        }
                        st.hit(Ev::Promotion);
                        freq.insert(0, e);
                        Some(old)
                    } else {
                        None
                    };
                    if r.is_some() && w {
                        st.hit(Ev::WriteThrough);
                    }
                    Out::V(r)
                }
                Op::Remove(k, _) => {
                    if let Some(p) = pos(freq, *k) {
                        st.hit(Ev::Removal);
                        Out::V(Some(freq.remove(p).1))
                    } else if let Some(p) = pos(recent, *k) {
                        st.hit(Ev::Removal);
                        Out::V(Some(recent.remove(p).1))
                    } else if let Some(p) = pos(ghost, *k) {
                        st.hit(Ev::RemoveGhost);
                        // the statements speak about resident entries only: removing a ghost
                        // may hand its value back (alt 0), or report None with (alt 1) or
                        // without (alt 2) forgetting the ghost
                        match alt {
                            0 => Out::V(Some(ghost.remove(p).1)),
                            1 => {
                                ghost.remove(p);
                                Out::V(None)
                            }
                            _ => Out::V(None),
                        }
                    } else {
                        Out::V(None)
                    }
                }
                _ => Out::Unsupported,
            },
            M::Arc { size, p, t1, t2, b1, b2 } => match op {
                Op::Lens => Out::Nums(vec![
                    t1.len() as u64,
                    t2.len() as u64,
                    b1.len() as u64,
                    b2.len() as u64,
                    *p as u64,
                ]),
                Op::Put(k) => {
                    let (pr, g, gm) = arc_put(*size, p, t1, t2, b1, b2, *k, tok, st);
                    self.ghosted = g;
                    self.ghost_max = gm;
                    Out::Put(pr)
                }
                Op::Get(k, _) | Op::GetMut(k, _, _) => {
                    let w = matches!(op, Op::GetMut(_, _, true));
                    let r = if let Some(q) = pos(t1, *k) {
                        let mut e = t1.remove(q);
                        let old = e.1;
                        if w {
                            e.1 = tok;
                        }
                        st.hit(Ev::Promotion);
                        t2.insert(0, e);
                        Some(old)
                    } else if let Some(q) = pos(t2, *k) {
                        let mut e = t2.remove(q);
                        let old = e.1;
                        if w {
                            e.1 = tok;
                        }
                        if q != 0 {
                            st.hit(Ev::Reorder);
                        }
                        t2.insert(0, e);
                        Some(old)
                    } else {
                        None
                    };
                    if r.is_some() && w {
                        st.hit(Ev::WriteThrough);
                    }
                    Out::V(r)
                }
                Op::Remove(k, _) => {
                    if let Some(q) = pos(t1, *k) {
                        st.hit(Ev::Removal);
                        Out::V(Some(t1.remove(q).1))
                    } else if let Some(q) = pos(t2, *k) {
                        st.hit(Ev::Removal);
                        Out::V(Some(t2.remove(q).1))
                    } else {
                        let g = if pos(b1, *k).is_some() { Some(&mut *b1) } else if pos(b2, *k).is_some() { Some(&mut *b2) } else { None };
                        match g {
                            None => Out::V(None),
                            Some(g) => {
                                st.hit(Ev::RemoveGhost);
                                let q = pos(g, *k).unwrap();
                                match alt {
                                    0 => Out::V(Some(g.remove(q).1)),
                                    1 => {
                                        g.remove(q);
                                        Out::V(None)
                                    }
                                    _ => Out::V(None),
                                }
                            }
                        }
                    }
                }
                _ => Out::Unsupported,
            },
            M::Wtl { wc, pc, tc, win, prob, prot } => match op {
                Op::Lens => Out::Nums(vec![
                    win.len() as u64,
                    (prob.len() + prot.len()) as u64,
                    *wc as u64,
                    (*pc + *tc) as u64,
                ]),
                Op::Put(k) => Out::Put(wtl_put(*wc, *pc, *tc, win, prob, prot, *k, tok, est, st)),
                Op::Get(k, _) | Op::GetMut(k, _, _) => {
                    let w = matches!(op, Op::GetMut(_, _, true));
                    let r = if let Some(q) = pos(win, *k) {
                        let mut e = win.remove(q);
                        let old = e.1;
                        if w {
                            e.1 = tok;
                        }
                        if q != 0 {
                            st.hit(Ev::Reorder);
                        }
                        win.insert(0, e);
                        Some(old)
                    } else {
                        seg_get(prob, prot, *tc, *k, if w { Some(tok) } else { None }, st)
                    };
                    if r.is_some() && w {
                        st.hit(Ev::WriteThrough);
                    }
                    Out::V(r)
                }
                Op::Remove(k, _) => {
                    let mut r = None;
                    for l in [&mut *win, &mut *prob, &mut *prot] {
                        if let Some(q) = pos(l, *k) {
                            r = Some(l.remove(q).1);
                            st.hit(Ev::Removal);
                            break;
                        }
                    }
                    Out::V(r)
                }
                _ => Out::Unsupported,
            },
        };
        if was_full {
            if let Out::Put(_) | Out::OrPut(None, Some(_)) | Out::ContainsOrPut(false, Some(_)) = &out {
                st.hit(Ev::AdmitAfterFull);
            }
        }
        if !was_full && self.resident_len() >= self.total_cap() && self.total_cap() > 0 {
            st.hit(Ev::ReachedFull);
        }
        out
    }

    /// ARC may discard ghost entries silently: adopt the observed ghost lists when each is the
    /// predicted list minus a suffix of least-recent entries (a ghost list that just received
    /// a victim must still have it at its most-recent end).
    pub fn reconcile_arc_ghosts(&mut self, real: &[Vec<(u16, u32)>]) -> bool {
        let ghosted = self.ghosted;
        let gmax = self.ghost_max.take();
        if let M::Arc { b1, b2, .. } = &mut self.m {
            for (li, g) in [(2usize, b1), (3usize, b2)] {
                let r = &real[li];
                if r == g {
                    continue;
                }
                // fewer discards than the model's trimming rule: fine, as long as it is the
                // untrimmed list minus a least-recent suffix
                let max = match (&gmax, li) {
                    (Some(m), 2) => &m.0,
                    (Some(m), _) => &m.1,
                    _ => &*g,
                };
                if !max.starts_with(r) {
                    return false;
                }
                // (a ghost list may even lose the victim it just received: the original ARC
                // trims with the post-eviction lengths and does exactly that when p == 0; the
                // statement grants "ARC may discard ghost entries silently")
                let _ = ghosted;
                *g = r.clone();
            }
            true
        } else {
            true
        }
    }
}

fn lru_put(l: &mut L, cap: usize, k: u16, v: u32, st: &mut Stats) -> PR {
    if let Some(p) = pos(l, k) {
        let (_, old) = l.remove(p);
        l.insert(0, (k, v));
        st.hit(Ev::Update);
        if p != 0 {
            st.hit(Ev::Reorder);
        }
        return PR::Update(old);
    }
    if cap == 0 {
        st.hit(Ev::PutAtCapZero);
        return PR::Evicted(k, v);
    }
    l.insert(0, (k, v));
    if l.len() > cap {
        let e = l.pop().unwrap();
        st.hit(Ev::Eviction);
        PR::Evicted(e.0, e.1)
    } else {
        PR::Put
    }
}

#[allow(clippy::too_many_arguments)]
fn twoq_put(size: usize, quota: usize, gcap: usize, recent: &mut L, freq: &mut L, ghost: &mut L, k: u16, v: u32, st: &mut Stats) -> PR {
    if let Some(i) = pos(freq, k) {
        let (_, old) = freq.remove(i);
        freq.insert(0, (k, v));
        st.hit(Ev::Update);
        return PR::Update(old);
    }
    if let Some(i) = pos(recent, k) {
        let (_, old) = recent.remove(i);
        freq.insert(0, (k, v));
        st.hit(Ev::Update);
        st.hit(Ev::Promotion);
        return PR::Update(old);
    }
    let full = recent.len() + freq.len() >= size;
    let mut victim = |new_key: bool, recent: &mut L, freq: &mut L, st: &mut Stats| -> (u16, u32) {
        let want_recent = if new_key { recent.len() >= quota } else { recent.len() > quota };
        let from_recent = if want_recent {
            if recent.is_empty() {
                st.hit(Ev::VictimFallback);
                false
            } else {
                true
            }
        } else if freq.is_empty() {
            st.hit(Ev::VictimFallback);
            true
        } else {
            false
        };
        if from_recent {
            st.hit(Ev::VictimRecent);
            recent.pop().unwrap()
        } else {
            st.hit(Ev::VictimFrequent);
            freq.pop().unwrap()
        }
    };
    if pos(ghost, k).is_some() {
        st.hit(Ev::GhostHit);
        let mut ev = None;
        if full {
            st.hit(Ev::GhostHitFull);
            let vic = victim(false, recent, freq, st);
            ghost.insert(0, vic);
            if ghost.len() > gcap {
                ev = ghost.pop();
                st.hit(Ev::GhostOverflow);
            }
        }
        let old = match pos(ghost, k) {
            Some(i) => ghost.remove(i).1,
            None => {
                // the ghost list's overflow victim was the very key being revived
                st.hit(Ev::ReviveOwnVictim);
                let e = ev.take().unwrap();
                e.1
            }
        };
        freq.insert(0, (k, v));
        st.hit(Ev::Update);
        return match ev {
            None => PR::Update(old),
            Some(e) => {
                st.hit(Ev::Eviction);
                PR::EvictedAndUpdate(e, old)
            }
        };
    }
    if !full {
        recent.insert(0, (k, v));
        return PR::Put;
    }
    let vic = victim(true, recent, freq, st);
    recent.insert(0, (k, v));
    ghost.insert(0, vic);
    if ghost.len() > gcap {
        let e = ghost.pop().unwrap();
        st.hit(Ev::GhostOverflow);
        st.hit(Ev::Eviction);
        PR::Evicted(e.0, e.1)
    } else {
        PR::Put
    }
}

/// returns the ghost list index that received a victim (2 = b1, 3 = b2)
fn arc_replace(size: usize, p: usize, t1: &mut L, t2: &mut L, b1: &mut L, b2: &mut L, b2hit: bool, st: &mut Stats) -> Option<usize> {
    let n = t1.len();
    let mut from_t1 = n > 0 && (n > p || (n == p && b2hit));
    if !from_t1 && t2.is_empty() {
        from_t1 = true;
        st.hit(Ev::VictimFallback);
    } else if from_t1 && t1.is_empty() {
        from_t1 = false;
        st.hit(Ev::VictimFallback);
    }
    if from_t1 {
        let e = t1.pop()?;
        st.hit(Ev::VictimRecent);
        b1.insert(0, e);
        if b1.len() > size {
            b1.pop();
            st.hit(Ev::GhostOverflow);
        }
        Some(2)
    } else {
        let e = t2.pop()?;
        st.hit(Ev::VictimFrequent);
        b2.insert(0, e);
        if b2.len() > size {
            b2.pop();
            st.hit(Ev::GhostOverflow);
        }
        Some(3)
    }
}

#[allow(clippy::too_many_arguments)]
fn arc_put(size: usize, p: &mut usize, t1: &mut L, t2: &mut L, b1: &mut L, b2: &mut L, k: u16, v: u32, st: &mut Stats) -> (PR, Option<usize>, Option<(L, L)>) {
    if let Some(i) = pos(t1, k) {
        let (_, old) = t1.remove(i);
        t2.insert(0, (k, v));
        st.hit(Ev::Update);
        st.hit(Ev::Promotion);
        return (PR::Update(old), None, None);
    }
    if let Some(i) = pos(t2, k) {
        let (_, old) = t2.remove(i);
        t2.insert(0, (k, v));
        st.hit(Ev::Update);
        return (PR::Update(old), None, None);
    }
    let (b1l, b2l) = (b1.len(), b2.len());
    let full = t1.len() + t2.len() >= size;
    if let Some(i) = pos(b1, k) {
        st.hit(Ev::GhostHit);
        st.hit(Ev::B1Hit);
        if full {
            st.hit(Ev::GhostHitFull);
        }
        let delta = if b2l > b1l { b2l / b1l } else { 1 };
        let np = (*p + delta).min(size);
        if np > *p {
            st.hit(Ev::PUp);
        }
        if *p + delta >= size {
            st.hit(Ev::PSaturated);
        }
        *p = np;
        let (_, old) = b1.remove(i);
        let g = if full { arc_replace(size, *p, t1, t2, b1, b2, false, st) } else { None };
        t2.insert(0, (k, v));
        st.hit(Ev::Update);
        return (PR::Update(old), g, None);
    }
    if let Some(i) = pos(b2, k) {
        st.hit(Ev::GhostHit);
        st.hit(Ev::B2Hit);
        if full {
            st.hit(Ev::GhostHitFull);
        }
        let delta = if b1l > b2l { b1l / b2l } else { 1 };
        let np = p.saturating_sub(delta);
        if np < *p {
            st.hit(Ev::PDown);
        }
        if delta >= *p {
            st.hit(Ev::PSaturated);
        }
        *p = np;
        let (_, old) = b2.remove(i);
        let g = if full { arc_replace(size, *p, t1, t2, b1, b2, true, st) } else { None };
        t2.insert(0, (k, v));
        st.hit(Ev::Update);
        return (PR::Update(old), g, None);
    }
    let g = if full { arc_replace(size, *p, t1, t2, b1, b2, false, st) } else { None };
    let untrimmed = (b1.clone(), b2.clone());
    if b1l > size - *p {
        b1.pop();
    }
    if b2l > *p {
        b2.pop();
    }
    t1.insert(0, (k, v));
    (PR::Put, g, Some(untrimmed))
}

#[allow(clippy::too_many_arguments)]
fn wtl_put(wc: usize, pc: usize, tc: usize, win: &mut L, prob: &mut L, prot: &mut L, k: u16, v: u32, est: &dyn Fn(u16, u16) -> bool, st: &mut Stats) -> PR {
    if let Some(i) = pos(win, k) {
        st.hit(Ev::WindowHitPut);
        let (_, old) = win.remove(i);
        if prot.len() >= tc {
            let d = prot.pop().unwrap();
            win.insert(0, d);
            st.hit(Ev::WindowHitPutDemote);
            st.hit(Ev::Demotion);
        }
        prot.insert(0, (k, v));
        st.hit(Ev::Update);
        return PR::Update(old);
    }
    if pos(prot, k).is_some() || pos(prob, k).is_some() {
        return seg_put(prob, prot, pc, tc, k, v, st);
    }
    win.insert(0, (k, v));
    if win.len() <= wc {
        return PR::Put;
    }
    let cand = win.pop().unwrap();
    if prob.len() + prot.len() < pc + tc {
        st.hit(Ev::AdmitFree);
        return seg_put(prob, prot, pc, tc, cand.0, cand.1, st);
    }
    let vic = *prob.last().unwrap();
    st.hit(Ev::AdmitCompared);
    if est(cand.0, vic.0) {
        st.hit(Ev::AdmitRejected);
        st.hit(Ev::Eviction);
        PR::Evicted(cand.0, cand.1)
    } else {
        st.hit(Ev::AdmitAccepted);
        seg_put(prob, prot, pc, tc, cand.0, cand.1, st)
    }
}
