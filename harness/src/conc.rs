//! Concurrent readers (C19): the cache types are `Sync`, so safe code may call every `&self`
//! method from several threads at once. That is only justified if those methods do not write.
//! Several threads hammer all `&self` methods of a shared, prefilled cache; every answer must be
//! the one computed single-threaded beforehand (the state never changes). A `&self` method that
//! writes to the list (a transient unlink, a lazily updated field) shows up as a wrong answer in
//! a plain run, and as a data race under ThreadSanitizer / Miri.
use caches::{AdaptiveCache, Cache, RawLRU, SegmentedCache, TwoQueueCache, WTinyLFUCache};
use std::sync::atomic::{AtomicBool, Ordering};
use std::sync::Mutex;

/// one observation of everything reachable through `&self`, as text
type Obs = Vec<String>;

fn obs_lru(c: &RawLRU<u64, u64>, i: usize) -> String {
    let n = c.len() as u64;
    match i % 14 {
        0 => format!("peek {:?}", c.peek(&(i as u64 % (n + 2)))),
        1 => format!("contains {:?}", c.contains(&(i as u64 % (n + 2)))),
        2 => format!("len {} cap {} empty {}", c.len(), c.cap(), c.is_empty()),
        3 => format!("peek_lru {:?}", c.peek_lru()),
        4 => format!("peek_mru {:?}", c.peek_mru()),
        5 => format!("get_mru {:?}", c.get_mru()),
        6 => format!("iter {:?}", c.iter().take(5).collect::<Vec<_>>()),
        7 => format!("iter_lru {:?}", c.iter_lru().take(5).collect::<Vec<_>>()),
        8 => format!("keys {:?}", c.keys().collect::<Vec<_>>()),
        9 => format!("keys_lru {:?}", c.keys_lru().take(7).collect::<Vec<_>>()),
        10 => format!("values {:?}", c.values().rev().take(4).collect::<Vec<_>>()),
        11 => format!("values_lru {:?}", c.values_lru().count()),
        12 => format!("into_iter {:?}", (&*c).into_iter().nth(1)),
        _ => format!("debug {}", format!("{:?}", c).len()),
    }
}

fn obs_cache<C: Cache<u64, u64>>(c: &C, i: usize) -> String {
    let n = c.len() as u64;
    match i % 3 {
        0 => format!("peek {:?}", c.peek(&(i as u64 % (n + 2)))),
        1 => format!("contains {:?}", c.contains(&(i as u64 % (n + 2)))),
        _ => format!("len {} cap {} empty {}", c.len(), c.cap(), c.is_empty()),
    }
}

fn obs_seg(c: &SegmentedCache<u64, u64>, i: usize) -> String {
    match i % 6 {
        0..=2 => obs_cache(c, i / 6),
        3 => format!("peek_lru_from_protected {:?}", c.peek_lru_from_protected()),
        4 => format!("peek_mru_from_protected {:?}", c.peek_mru_from_protected()),
        _ => format!("lens {} {} caps {} {}", c.probationary_len(), c.protected_len(), c.probationary_cap(), c.protected_cap()),
    }
}

fn obs_2q(c: &TwoQueueCache<u64, u64>, i: usize) -> String {
    match i % 8 {
        0..=2 => obs_cache(c, i / 8),
        3 => format!("recent {:?}", c.recent_keys().take(5).collect::<Vec<_>>()),
        4 => format!("frequent {:?}", c.frequent_iter().take(5).collect::<Vec<_>>()),
        5 => format!("ghost {:?}", c.ghost_keys_lru().take(5).collect::<Vec<_>>()),
        6 => format!("lens {} {} {}", c.recent_len(), c.frequent_len(), c.ghost_len()),
        _ => format!("values {:?}", c.frequent_values_lru().take(3).collect::<Vec<_>>()),
    }
}

fn obs_arc(c: &AdaptiveCache<u64, u64>, i: usize) -> String {
    match i % 9 {
        0..=2 => obs_cache(c, i / 9),
        3 => format!("recent {:?}", c.recent_keys().take(5).collect::<Vec<_>>()),
        4 => format!("frequent {:?}", c.frequent_iter_lru().take(5).collect::<Vec<_>>()),
        5 => format!("recent_evict {:?}", c.recent_evict_keys().take(5).collect::<Vec<_>>()),
        6 => format!("frequent_evict {:?}", c.frequent_evict_keys_lru().take(5).collect::<Vec<_>>()),
        7 => format!("lens {} {} {} {} p {}", c.recent_len(), c.frequent_len(), c.recent_evict_len(), c.frequent_evict_len(), c.partition()),
        _ => format!("values {:?}", c.recent_values().take(3).collect::<Vec<_>>()),
    }
}

const ROUNDS: usize = 3;

/// run `f(i)` for i in 0..n single-threaded, then from `threads` threads at once; any differing
/// answer is returned as (index, expected, got)
fn hammer<F: Fn(usize) -> String + Sync>(n: usize, iters: usize, threads: usize, f: F) -> Option<(usize, String, String)> {
    let expected: Obs = (0..n).map(&f).collect();
    let stop = AtomicBool::new(false);
    let bad: Mutex<Option<(usize, String, String)>> = Mutex::new(None);
    std::thread::scope(|sc| {
        for t in 0..threads {
            let (f, expected, stop, bad) = (&f, &expected, &stop, &bad);
            sc.spawn(move || {
                for j in 0..iters {
                    if stop.load(Ordering::Relaxed) {
                        return;
                    }
                    let i = (j * 7 + t * 3) % n;
                    let got = f(i);
                    if got != expected[i] {
                        stop.store(true, Ordering::Relaxed);
                        let mut b = bad.lock().unwrap_or_else(|e| e.into_inner());
                        if b.is_none() {
                            *b = Some((i, expected[i].clone(), got));
                        }
                        return;
                    }
                }
            });
        }
    });
    bad.into_inner().unwrap_or_else(|e| e.into_inner())
}

/// returns (observations made, first violation text)
pub fn run_conc(thorough: bool) -> (u64, Option<String>) {
    let iters = if thorough { 400_000 } else { 60_000 };
    let threads = 6;
    let mut made = 0u64;
    for round in 0..ROUNDS {
        let cap = [2usize, 5, 9][round];
        let fill = |c: &mut dyn FnMut(u64, u64)| {
            for k in 0..(cap as u64 * 2 + 1) {
                c(k, k * 10);
            }
        };
        // RawLRU
        let mut lru: RawLRU<u64, u64> = RawLRU::new(cap).unwrap();
        fill(&mut |k, v| {
            lru.put(k, v);
        });
        lru.get(&(cap as u64 + 2));
        let lru = &lru;
        made += (iters * threads) as u64;
        if let Some((i, e, g)) = hammer(14 * 5, iters, threads, |i| obs_lru(lru, i)) {
            return (made, Some(format!("RawLRU (capacity {cap}) shared by {threads} threads that only call `&self` methods: call #{i} answered `{g}`, the single-threaded answer is `{e}` (a `&self` method writes to the cache, so the type must not be Sync)")));
        }
        let mut seg: SegmentedCache<u64, u64> = SegmentedCache::new(cap, cap).unwrap();
        fill(&mut |k, v| {
            seg.put(k, v);
        });
        for k in 0..(cap as u64 * 2 + 1) {
            if k % 2 == 0 {
                seg.get(&k);
            }
        }
        let seg = &seg;
        made += (iters * threads) as u64;
        if let Some((i, e, g)) = hammer(6 * 7, iters, threads, |i| obs_seg(seg, i)) {
            return (made, Some(format!("SegmentedCache ({cap}, {cap}) shared by {threads} threads that only call `&self` methods: call #{i} answered `{g}`, the single-threaded answer is `{e}`")));
        }
        let mut q2: TwoQueueCache<u64, u64> = TwoQueueCache::new(cap.max(2)).unwrap();
        fill(&mut |k, v| {
            q2.put(k, v);
        });
        q2.get(&(cap as u64 * 2));
        q2.put(0, 1);
        let q2 = &q2;
        made += (iters * threads) as u64;
        if let Some((i, e, g)) = hammer(8 * 7, iters, threads, |i| obs_2q(q2, i)) {
            return (made, Some(format!("TwoQueueCache ({}) shared by {threads} threads that only call `&self` methods: call #{i} answered `{g}`, the single-threaded answer is `{e}`", cap.max(2))));
        }
        let mut arc: AdaptiveCache<u64, u64> = AdaptiveCache::new(cap).unwrap();
        fill(&mut |k, v| {
            arc.put(k, v);
        });
        arc.get(&(cap as u64 * 2));
        arc.put(0, 1);
        let arc = &arc;
        made += (iters * threads) as u64;
        if let Some((i, e, g)) = hammer(9 * 7, iters, threads, |i| obs_arc(arc, i)) {
            return (made, Some(format!("AdaptiveCache ({cap}) shared by {threads} threads that only call `&self` methods: call #{i} answered `{g}`, the single-threaded answer is `{e}`")));
        }
        let mut w: WTinyLFUCache<u64, u64> = WTinyLFUCache::with_sizes(1, cap, cap, 16).unwrap();
        fill(&mut |k, v| {
            w.put(k, v);
        });
        let w = &w;
        made += (iters * threads) as u64;
        if let Some((i, e, g)) = hammer(3 * 9, iters, threads, |i| obs_cache(w, i)) {
            return (made, Some(format!("WTinyLFUCache (1, {cap}, {cap}) shared by {threads} threads that only call `&self` methods: call #{i} answered `{g}`, the single-threaded answer is `{e}`")));
        }
    }
    (made, None)
}
