//! Value-type independence (metamorphic): the policy of a cache (which keys are retained, in
//! which list, in which order, what every call reports about *keys*) must not depend on the
//! value type. The same generated history runs with `V = u32` and with unusual value types
//! (zero-sized, one byte, over-aligned, heap-owning) and every key-level observation is compared.
//! Owners: C06 (RawLRU), C07 (SegmentedCache), C08 (TwoQueueCache), C09 (AdaptiveCache).
use crate::inst::{reset_case, take_last_panic};
use crate::interp::{CaseReport, Violation};
use crate::ops::Kind;
use caches::{AdaptiveCache, Cache, PutResult, RawLRU, ResizableCache, SegmentedCache, TwoQueueCache};
use proptest::prelude::*;
use serde::{Deserialize, Serialize};
use std::panic::{catch_unwind, AssertUnwindSafe};

pub trait VT: 'static {
    const NAME: &'static str;
    fn mk(tok: u32) -> Self;
}
impl VT for u32 {
    const NAME: &'static str = "u32";
    fn mk(t: u32) -> Self {
        t
    }
}
impl VT for () {
    const NAME: &'static str = "() (zero-sized)";
    fn mk(_: u32) -> Self {}
}
#[derive(Clone, Copy)]
pub struct Zst2;
impl VT for Zst2 {
    const NAME: &'static str = "zero-sized struct";
    fn mk(_: u32) -> Self {
        Zst2
    }
}
impl VT for u8 {
    const NAME: &'static str = "u8";
    fn mk(t: u32) -> Self {
        t as u8
    }
}
#[repr(align(64))]
pub struct Big([u64; 9]);
impl VT for Big {
    const NAME: &'static str = "72 bytes, align 64";
    fn mk(t: u32) -> Self {
        Big([t as u64; 9])
    }
}
pub struct Page([u64; 1100]);
impl VT for Page {
    const NAME: &'static str = "8800 bytes";
    fn mk(t: u32) -> Self {
        Page([t as u64; 1100])
    }
}
impl VT for String {
    const NAME: &'static str = "String";
    fn mk(t: u32) -> Self {
        format!("{t}")
    }
}
impl VT for Option<Box<u32>> {
    const NAME: &'static str = "Option<Box<u32>>";
    fn mk(t: u32) -> Self {
        if t % 3 == 0 {
            None
        } else {
            Some(Box::new(t))
        }
    }
}

#[derive(Clone, Debug, Serialize, Deserialize, PartialEq)]
pub enum VOp {
    Put(u16),
    Get(u16),
    GetMut(u16),
    Peek(u16),
    PeekMut(u16),
    Contains(u16),
    Remove(u16),
    Purge,
    /// RawLRU only
    RemoveLru,
    GetLru,
    PeekOrPut(u16),
    ContainsOrPut(u16),
    Resize(u16),
    /// SegmentedCache only
    PutProtected(u16),
}

#[derive(Clone, Debug, Serialize, Deserialize)]
pub struct VCase {
    pub kind: Kind,
    pub a: usize,
    pub b: usize,
    pub ops: Vec<VOp>,
}

/// key-level observation of one step
#[derive(Clone, Debug, PartialEq)]
pub struct Obs {
    pub result: String,
    pub lists: Vec<Vec<u16>>,
    pub len: usize,
}

pub fn vcase_strategy(kind: Kind, thorough: bool) -> BoxedStrategy<VCase> {
    let caps = prop_oneof![6 => 1usize..=4, 2 => 5usize..=9];
    (caps.clone(), caps)
        .prop_flat_map(move |(a, b)| {
            let total = if kind == Kind::Seg { a + b } else { a };
            let hi = (2 * total + 2) as u16;
            let key = move || 0u16..hi;
            let mut v: Vec<(u32, BoxedStrategy<VOp>)> = vec![
                (10, key().prop_map(VOp::Put).boxed()),
                (5, key().prop_map(VOp::Get).boxed()),
                (2, key().prop_map(VOp::GetMut).boxed()),
                (2, key().prop_map(VOp::Peek).boxed()),
                (1, key().prop_map(VOp::PeekMut).boxed()),
                (1, key().prop_map(VOp::Contains).boxed()),
                (3, key().prop_map(VOp::Remove).boxed()),
                (1, Just(VOp::Purge).boxed()),
            ];
            if kind == Kind::Lru {
                v.push((2, Just(VOp::RemoveLru).boxed()));
                v.push((2, Just(VOp::GetLru).boxed()));
                v.push((2, key().prop_map(VOp::PeekOrPut).boxed()));
                v.push((2, key().prop_map(VOp::ContainsOrPut).boxed()));
                v.push((1, (0u16..hi).prop_map(VOp::Resize).boxed()));
            }
            if kind == Kind::Seg {
                v.push((3, key().prop_map(VOp::PutProtected).boxed()));
            }
            let n = if thorough { 80 } else { 36 };
            (Just(a), Just(b), prop::collection::vec(proptest::strategy::Union::new_weighted(v), 0..=n))
        })
        .prop_map(move |(a, b, ops)| VCase { kind, a, b, ops })
        .boxed()
}

fn pr<V>(r: PutResult<u16, V>) -> String {
    match r {
        PutResult::Put => "Put".into(),
        PutResult::Update(_) => "Update".into(),
        PutResult::Evicted { key, .. } => format!("Evicted({key})"),
        PutResult::EvictedAndUpdate { evicted, .. } => format!("EvictedAndUpdate({})", evicted.0),
    }
}

/// the operations every cache type has; `None` = not a common op
fn common<V: VT, C: Cache<u16, V>>(c: &mut C, op: &VOp, i: usize) -> Option<String> {
    let t = crate::ops::token(i, 0);
    Some(match op {
        VOp::Put(k) => pr(c.put(*k, V::mk(t))),
        VOp::Get(k) => format!("{}", c.get(k).is_some()),
        VOp::GetMut(k) => format!(
            "{}",
            c.get_mut(k)
                .map(|v| {
                    *v = V::mk(t);
                })
                .is_some()
        ),
        VOp::Peek(k) => format!("{}", c.peek(k).is_some()),
        VOp::PeekMut(k) => format!(
            "{}",
            c.peek_mut(k)
                .map(|v| {
                    *v = V::mk(t);
                })
                .is_some()
        ),
        VOp::Contains(k) => format!("{}", c.contains(k)),
        VOp::Remove(k) => format!("{}", c.remove(k).is_some()),
        VOp::Purge => {
            c.purge();
            String::new()
        }
        _ => return None,
    })
}

fn keys_of<V, E: caches::OnEvictCallback, S: core::hash::BuildHasher>(c: &RawLRU<u16, V, E, S>) -> Vec<u16> {
    c.keys().copied().collect()
}

pub fn drive<V: VT>(case: &VCase) -> Result<Vec<Obs>, String> {
    let mut out = Vec::with_capacity(case.ops.len());
    match case.kind {
        Kind::Lru => {
            let mut c: RawLRU<u16, V> = RawLRU::new(case.a).map_err(|e| e.to_string())?;
            for (i, op) in case.ops.iter().enumerate() {
                let t = crate::ops::token(i, 0);
                let result = match common::<V, _>(&mut c, op, i) {
                    Some(r) => r,
                    None => match op {
                        VOp::RemoveLru => format!("{:?}", c.remove_lru().map(|e| e.0)),
                        VOp::GetLru => format!("{:?}", c.get_lru().map(|e| *e.0)),
                        VOp::PeekOrPut(k) => {
                            let (v, r) = c.peek_or_put(*k, V::mk(t));
                            let some = v.is_some();
                            format!("{} {:?}", some, r.map(pr))
                        }
                        VOp::ContainsOrPut(k) => {
                            let (b, r) = c.contains_or_put(*k, V::mk(t));
                            format!("{} {:?}", b, r.map(pr))
                        }
                        VOp::Resize(n) => format!("{}", c.resize(*n as usize)),
                        _ => String::from("-"),
                    },
                };
                let lru_first: Vec<u16> = c.keys_lru().copied().collect();
                let mut rev = lru_first.clone();
                rev.reverse();
                let lists = vec![keys_of(&c), rev, c.peek_lru().map(|e| vec![*e.0]).unwrap_or_default(), c.peek_mru().map(|e| vec![*e.0]).unwrap_or_default()];
                out.push(Obs { result, lists, len: c.len() });
            }
        }
        Kind::Seg => {
            let mut c: SegmentedCache<u16, V> = SegmentedCache::new(case.a, case.b).map_err(|e| e.to_string())?;
            for (i, op) in case.ops.iter().enumerate() {
                let t = crate::ops::token(i, 0);
                let result = match common::<V, _>(&mut c, op, i) {
                    Some(r) => r,
                    None => match op {
                        VOp::PutProtected(k) => pr(c.put_protected(*k, V::mk(t))),
                        _ => String::from("-"),
                    },
                };
                let lists = vec![keys_of(c.verif_probationary()), keys_of(c.verif_protected())];
                out.push(Obs { result, lists, len: c.len() });
            }
        }
        Kind::TwoQ => {
            let mut c: TwoQueueCache<u16, V> = TwoQueueCache::new(case.a).map_err(|e| e.to_string())?;
            for (i, op) in case.ops.iter().enumerate() {
                let result = common::<V, _>(&mut c, op, i).unwrap_or_else(|| "-".into());
                let lists = vec![c.recent_keys().copied().collect(), c.frequent_keys().copied().collect(), c.ghost_keys().copied().collect()];
                out.push(Obs { result, lists, len: c.len() });
            }
        }
        _ => {
            let mut c: AdaptiveCache<u16, V> = AdaptiveCache::new(case.a).map_err(|e| e.to_string())?;
            for (i, op) in case.ops.iter().enumerate() {
                let result = common::<V, _>(&mut c, op, i).unwrap_or_else(|| "-".into());
                let lists = vec![
                    c.recent_keys().copied().collect(),
                    c.frequent_keys().copied().collect(),
                    c.recent_evict_keys().copied().collect(),
                    c.frequent_evict_keys().copied().collect(),
                    vec![c.partition() as u16],
                ];
                out.push(Obs { result, lists, len: c.len() });
            }
        }
    }
    Ok(out)
}

fn cmp<V: VT>(case: &VCase, base: &[Obs], prop: &'static str) -> Result<(), Violation> {
    let got = drive::<V>(case).map_err(|e| Violation { prop, step: 0, msg: format!("construction with V = {} fails although it succeeds with V = u32: {e}", V::NAME), sig: "vtype/-/ctor".into() })?;
    for (i, (a, b)) in base.iter().zip(got.iter()).enumerate() {
        if a != b {
            return Err(Violation {
                prop,
                step: i,
                msg: format!(
                    "step {i} {:?} on {} (capacities {}, {}): with V = {} the call reports {:?}, lists {:?}, len {}; with V = u32 it reports {:?}, lists {:?}, len {} (the policy must not depend on the value type)",
                    case.ops[i],
                    case.kind.short(),
                    case.a,
                    case.b,
                    V::NAME,
                    b.result,
                    b.lists,
                    b.len,
                    a.result,
                    a.lists,
                    a.len
                ),
                sig: format!("vtype/{}/divergence", case.kind.short()),
            });
        }
    }
    Ok(())
}

pub fn prop_of_kind(kind: Kind) -> &'static str {
    match kind {
        Kind::Seg => "C07",
        Kind::TwoQ => "C08",
        Kind::Arc => "C09",
        _ => "C06",
    }
}

pub fn run_vtype(case: &VCase) -> CaseReport {
    reset_case();
    let _ = take_last_panic();
    let mut rep = CaseReport::default();
    rep.steps = case.ops.len();
    let prop = prop_of_kind(case.kind);
    let base = match catch_unwind(AssertUnwindSafe(|| drive::<u32>(case))) {
        Ok(Ok(b)) => b,
        Ok(Err(e)) => {
            rep.unbuildable = Some(e);
            return rep;
        }
        Err(_) => {
            rep.aborted_by_panic = Some(take_last_panic().unwrap_or_default());
            return rep;
        }
    };
    let r = catch_unwind(AssertUnwindSafe(|| -> Result<(), Violation> {
        cmp::<()>(case, &base, prop)?;
        cmp::<Zst2>(case, &base, prop)?;
        cmp::<u8>(case, &base, prop)?;
        cmp::<Big>(case, &base, prop)?;
        cmp::<Page>(case, &base, prop)?;
        cmp::<String>(case, &base, prop)?;
        cmp::<Option<Box<u32>>>(case, &base, prop)?;
        // non-trivial: something was evicted and something was updated
        let ev = base.iter().any(|o| o.result.contains("Evicted") || (matches!(case.kind, Kind::TwoQ | Kind::Arc) && o.lists.get(2).map(|l| !l.is_empty()).unwrap_or(false)));
        let up = base.iter().any(|o| o.result.contains("Update"));
        if ev && up {
            return Err(Violation { prop: "", step: 0, msg: String::new(), sig: "nontrivial".into() });
        }
        Ok(())
    }));
    match r {
        Ok(Ok(())) => {}
        Ok(Err(v)) if v.sig == "nontrivial" => rep.nontrivial = true,
        Ok(Err(v)) => rep.violation = Some(v),
        Err(_) => {
            let (loc, msg) = take_last_panic().unwrap_or_default();
            rep.violation = Some(Violation { prop, step: 0, msg: format!("a history that runs with V = u32 panicked at {loc} with another value type: {msg}"), sig: "vtype/-/panic".into() });
        }
    }
    rep
}

// ------------------------------------------------------------------ C04: asymmetric drop glue
//
// Ownership conservation with key / value types of which only ONE has a destructor
// (`K = TKey, V = u32` and `K = u16, V = TVal`): the library may consult `needs_drop`, and the
// E1 ledger only ever sees the pair (TKey, TVal). Oracle: after every step the number of live
// tracked objects equals the number of retained entries (resident + ghosts); none is live
// after the drop; no dead object is touched.

use crate::inst::{live_ids, take_bad, TKey, TVal};
use caches::WTinyLFUCache;

fn ledger_ops<K, V, C: Cache<K, V>>(c: &mut C, ops: &[VOp], mk_k: &dyn Fn(u16) -> K, mk_v: &dyn Fn(u32) -> V, retained: &dyn Fn(&C) -> usize, what: &str) -> Result<(), String>
where
    K: core::hash::Hash + Eq,
{
    for (i, op) in ops.iter().enumerate() {
        let t = crate::ops::token(i, 0);
        match op {
            VOp::Put(k) | VOp::PeekOrPut(k) | VOp::ContainsOrPut(k) | VOp::PutProtected(k) => drop(c.put(mk_k(*k), mk_v(t))),
            VOp::Get(k) => {
                let _ = c.get(&mk_k(*k)).is_some();
            }
            VOp::GetMut(k) => {
                if let Some(v) = c.get_mut(&mk_k(*k)) {
                    *v = mk_v(t);
                }
            }
            VOp::Peek(k) => {
                let _ = c.peek(&mk_k(*k)).is_some();
            }
            VOp::PeekMut(k) => {
                if let Some(v) = c.peek_mut(&mk_k(*k)) {
                    *v = mk_v(t);
                }
            }
            VOp::Contains(k) => {
                let _ = c.contains(&mk_k(*k));
            }
            VOp::Remove(k) => drop(c.remove(&mk_k(*k))),
            VOp::Purge => c.purge(),
            _ => {}
        }
        let b = take_bad();
        if !b.is_empty() {
            return Err(format!("step {i} {op:?} on {what}: {}", b.join("; ")));
        }
        let (live, want) = (live_ids().len(), retained(c));
        if live != want {
            return Err(format!("step {i} {op:?} on {what}: {live} tracked object(s) are live, the cache retains {want} entr(y/ies) (each owns exactly one tracked object)"));
        }
    }
    Ok(())
}

macro_rules! ledger_kind {
    ($case:expr, $K:ty, $V:ty, $mk_k:expr, $mk_v:expr, $tag:expr) => {{
        let case: &VCase = $case;
        let what = format!("{} with {}", case.kind.short(), $tag);
        let r: Result<(), String> = (|| match case.kind {
            Kind::Lru => {
                let mut c: RawLRU<$K, $V> = RawLRU::new(case.a).map_err(|e| e.to_string())?;
                ledger_ops(&mut c, &case.ops, &$mk_k, &$mk_v, &|c| c.len(), &what)
            }
            Kind::Seg => {
                let mut c: SegmentedCache<$K, $V> = SegmentedCache::new(case.a, case.b).map_err(|e| e.to_string())?;
                ledger_ops(&mut c, &case.ops, &$mk_k, &$mk_v, &|c| c.len(), &what)
            }
            Kind::TwoQ => {
                let mut c: TwoQueueCache<$K, $V> = TwoQueueCache::new(case.a.max(2)).map_err(|e| e.to_string())?;
                ledger_ops(&mut c, &case.ops, &$mk_k, &$mk_v, &|c| c.len() + c.ghost_len(), &what)
            }
            Kind::Arc => {
                let mut c: AdaptiveCache<$K, $V> = AdaptiveCache::new(case.a).map_err(|e| e.to_string())?;
                ledger_ops(&mut c, &case.ops, &$mk_k, &$mk_v, &|c| c.len() + c.recent_evict_len() + c.frequent_evict_len(), &what)
            }
            _ => {
                let mut c: WTinyLFUCache<$K, $V> = WTinyLFUCache::with_sizes(case.a, case.b, case.b, 16).map_err(|e| e.to_string())?;
                ledger_ops(&mut c, &case.ops, &$mk_k, &$mk_v, &|c| c.len(), &what)
            }
        })();
        match r {
            Err(e) => Err(e),
            Ok(()) => {
                let live = live_ids();
                if live.is_empty() {
                    Ok(())
                } else {
                    Err(format!("{what}: after the drop of the cache {} tracked object(s) are still live (ids {:?}): leaked", live.len(), live))
                }
            }
        }
    }};
}

thread_local! {
    static ZLIVE: std::cell::Cell<i64> = const { std::cell::Cell::new(0) };
}
/// a zero-sized type with a destructor (all instances are equal and hash alike)
pub struct ZDrop;
impl ZDrop {
    fn new() -> ZDrop {
        ZLIVE.with(|z| z.set(z.get() + 1));
        ZDrop
    }
}
impl Drop for ZDrop {
    fn drop(&mut self) {
        ZLIVE.with(|z| z.set(z.get() - 1));
    }
}
impl core::hash::Hash for ZDrop {
    fn hash<H: core::hash::Hasher>(&self, h: &mut H) {
        h.write_u8(0)
    }
}
impl PartialEq for ZDrop {
    fn eq(&self, _: &Self) -> bool {
        true
    }
}
impl Eq for ZDrop {}
/// an inline value of ~20 KiB without a destructor (only the node allocation can leak)
pub struct Slab([u64; 2600]);

/// variants 2..4 of the ownership ledger: zero-sized keys / values with destructors, and
/// entries larger than 16 KiB (block count only)
fn run_dropglue_zst(case: &VCase, variant: usize) -> Result<(), String> {
    ZLIVE.with(|z| z.set(0));
    macro_rules! go {
        ($K:ty, $V:ty, $mk_k:expr, $mk_v:expr, $retained_objs:expr, $tag:expr) => {{
            let what = format!("{} with {}", case.kind.short(), $tag);
            let check = |c_len: usize, i: usize, op: &VOp| -> Result<(), String> {
                let live = ZLIVE.with(|z| z.get());
                let want: i64 = $retained_objs(c_len);
                if want >= 0 && live != want {
                    return Err(format!("step {i} {op:?} on {what}: {live} zero-sized object(s) with a destructor are live, the cache retains {c_len} entr(y/ies)"));
                }
                Ok(())
            };
            macro_rules! drive_one {
                ($c:expr, $ret:expr) => {{
                    let mut c = $c;
                    for (i, op) in case.ops.iter().enumerate() {
                        let t = crate::ops::token(i, 0);
                        match op {
                            VOp::Put(k) | VOp::PeekOrPut(k) | VOp::ContainsOrPut(k) | VOp::PutProtected(k) => drop(c.put($mk_k(*k), $mk_v(t))),
                            VOp::Get(k) | VOp::GetMut(k) => {
                                let _ = c.get(&$mk_k(*k)).is_some();
                            }
                            VOp::Peek(k) | VOp::PeekMut(k) | VOp::Contains(k) => {
                                let _ = c.peek(&$mk_k(*k)).is_some();
                            }
                            VOp::Remove(k) => drop(c.remove(&$mk_k(*k))),
                            VOp::Purge => c.purge(),
                            _ => {}
                        }
                        check($ret(&c), i, op)?;
                    }
                    drop(c);
                    Ok::<(), String>(())
                }};
            }
            match case.kind {
                Kind::Lru => drive_one!(RawLRU::<$K, $V>::new(case.a).map_err(|e| e.to_string())?, |c: &RawLRU<$K, $V>| c.len()),
                Kind::Seg => drive_one!(SegmentedCache::<$K, $V>::new(case.a, case.b).map_err(|e| e.to_string())?, |c: &SegmentedCache<$K, $V>| c.len()),
                Kind::TwoQ => drive_one!(TwoQueueCache::<$K, $V>::new(case.a.max(2)).map_err(|e| e.to_string())?, |c: &TwoQueueCache<$K, $V>| c.len() + c.ghost_len()),
                Kind::Arc => drive_one!(AdaptiveCache::<$K, $V>::new(case.a).map_err(|e| e.to_string())?, |c: &AdaptiveCache<$K, $V>| c.len() + c.recent_evict_len() + c.frequent_evict_len()),
                _ => drive_one!(WTinyLFUCache::<$K, $V>::with_sizes(case.a, case.b, case.b, 16).map_err(|e| e.to_string())?, |c: &WTinyLFUCache<$K, $V>| c.len()),
            }?;
            let live = ZLIVE.with(|z| z.get());
            if live != 0 {
                return Err(format!("{what}: after the drop of the cache {live} zero-sized object(s) with a destructor were never dropped (negative = dropped twice)"));
            }
            Ok(())
        }};
    }
    match variant {
        2 => go!(ZDrop, u32, |_k: u16| ZDrop::new(), |t: u32| t, |n: usize| n as i64, "a zero-sized key type with a destructor (all keys equal), V = u32"),
        3 => go!(u16, ZDrop, |k: u16| k, |_t: u32| ZDrop::new(), |n: usize| n as i64, "K = u16, a zero-sized value type with a destructor"),
        _ => go!(u16, Slab, |k: u16| k, |t: u32| Slab([t as u64; 2600]), |_n: usize| -1i64, "K = u16, a 20 KiB inline value (node allocations are counted)"),
    }
}

pub fn run_dropglue(case: &VCase) -> CaseReport {
    let mut rep = CaseReport::default();
    rep.steps = case.ops.len();
    for variant in 2..5 {
        reset_case();
        let _ = take_last_panic();
        let blocks0 = crate::alloc::live_blocks();
        let r = catch_unwind(AssertUnwindSafe(|| run_dropglue_zst(case, variant)));
        match r {
            Ok(Ok(())) => {
                if crate::alloc::TRACKING && crate::alloc::live_blocks() != blocks0 {
                    rep.violation = Some(Violation { prop: "C04", step: 0, msg: format!("{} heap block(s) still live after the drop of a {} cache ({})", crate::alloc::live_blocks() - blocks0, case.kind.short(), ["", "", "zero-sized keys with a destructor", "zero-sized values with a destructor", "20 KiB inline values"][variant]), sig: format!("dropglue/{}/leak-blocks", case.kind.short()) });
                    return rep;
                }
            }
            Ok(Err(msg)) => {
                if msg.contains("InvalidSize") || msg.contains("invalid") {
                    continue;
                }
                rep.violation = Some(Violation { prop: "C04", step: 0, msg, sig: format!("dropglue/{}/ledger-zst", case.kind.short()) });
                return rep;
            }
            Err(_) => {
                rep.aborted_by_panic = Some(take_last_panic().unwrap_or_default());
                return rep;
            }
        }
    }
    for variant in 0..2 {
        reset_case();
        let _ = take_last_panic();
        let blocks0 = crate::alloc::live_blocks();
        let r = catch_unwind(AssertUnwindSafe(|| -> Result<(), String> {
            if variant == 0 {
                ledger_kind!(case, TKey, u32, |k: u16| TKey::new(k), |t: u32| t, "K = tracked key (destructor), V = u32 (no drop glue)")
            } else {
                ledger_kind!(case, u16, TVal, |k: u16| k, |t: u32| TVal::new(t), "K = u16 (no drop glue), V = tracked value (destructor)")
            }
        }));
        match r {
            Ok(Ok(())) => {
                if crate::alloc::TRACKING && crate::alloc::live_blocks() != blocks0 {
                    rep.violation = Some(Violation { prop: "C04", step: 0, msg: format!("{} heap block(s) still live after the drop of a {} cache whose {} has no drop glue", crate::alloc::live_blocks() - blocks0, case.kind.short(), if variant == 0 { "value type" } else { "key type" }), sig: format!("dropglue/{}/leak-blocks", case.kind.short()) });
                    return rep;
                }
            }
            Ok(Err(msg)) => {
                rep.violation = Some(Violation { prop: "C04", step: 0, msg, sig: format!("dropglue/{}/ledger", case.kind.short()) });
                return rep;
            }
            Err(_) => {
                rep.aborted_by_panic = Some(take_last_panic().unwrap_or_default());
                return rep;
            }
        }
    }
    rep.nontrivial = case.ops.iter().filter(|o| matches!(o, VOp::Put(_))).count() > case.a + case.b && case.ops.iter().any(|o| matches!(o, VOp::Remove(_)));
    rep
}
