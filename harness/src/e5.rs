//! E5 — generated client programs judged by the compiler (C19).
//!
//! A catalogue of every public reference- or iterator-returning method is crossed with misuse
//! templates (hold across a later mutation, drop the cache while borrowed, outlive the cache,
//! two live `&mut` to one value, send a shared-reference iterator over !Sync values to another
//! thread). Every instance is emitted as one function next to a positive control that differs
//! only in statement order. `cargo check --message-format=json` is the oracle. Send/Sync is
//! tabulated over the full lattice by a generated program using the inherent-const trick.

use crate::interp::Violation;
use serde_json::{json, Value};
use std::collections::{BTreeMap, BTreeSet};
use std::fmt::Write as _;

#[derive(Clone, Debug)]
pub struct Method {
    pub ty: &'static str,
    pub name: String,
    /// expression using receiver `c` that yields the borrowed thing
    pub call: String,
    /// takes `&mut self`
    pub mutable: bool,
    /// hands out `&mut V` (or a mutable iterator)
    pub ret_mut: bool,
    pub iterator: bool,
}

pub const TYPES: [(&str, &str); 5] = [
    ("RawLRU", "RawLRU::<u64, String>::new(4).unwrap()"),
    ("SegmentedCache", "SegmentedCache::<u64, String>::new(2, 2).unwrap()"),
    ("TwoQueueCache", "TwoQueueCache::<u64, String>::new(4).unwrap()"),
    ("AdaptiveCache", "AdaptiveCache::<u64, String>::new(4).unwrap()"),
    ("WTinyLFUCache", "WTinyLFUCache::<u64, String>::with_sizes(1, 2, 2, 8).unwrap()"),
];

fn m(ty: &'static str, name: &str, call: &str, mutable: bool, ret_mut: bool, iterator: bool) -> Method {
    Method { ty, name: name.to_string(), call: call.to_string(), mutable, ret_mut, iterator }
}

pub fn catalogue() -> Vec<Method> {
    let mut v = vec![];
    for (ty, _) in TYPES.iter() {
        v.push(m(ty, "get", "c.get(&1u64)", true, false, false));
        v.push(m(ty, "get_mut", "c.get_mut(&1u64)", true, true, false));
        v.push(m(ty, "peek", "c.peek(&1u64)", false, false, false));
        v.push(m(ty, "peek_mut", "c.peek_mut(&1u64)", true, true, false));
    }
    let r = "RawLRU";
    v.push(m(r, "get_lru", "c.get_lru()", true, false, false));
    v.push(m(r, "get_mru", "c.get_mru()", false, false, false));
    v.push(m(r, "get_lru_mut", "c.get_lru_mut()", true, true, false));
    v.push(m(r, "get_mru_mut", "c.get_mru_mut()", true, true, false));
    v.push(m(r, "peek_or_put", "c.peek_or_put(1u64, String::new()).0", true, false, false));
    v.push(m(r, "peek_mut_or_put", "c.peek_mut_or_put(1u64, String::new()).0", true, true, false));
    v.push(m(r, "peek_lru", "c.peek_lru()", false, false, false));
    v.push(m(r, "peek_lru_mut", "c.peek_lru_mut()", true, true, false));
    v.push(m(r, "peek_mru", "c.peek_mru()", false, false, false));
    v.push(m(r, "peek_mru_mut", "c.peek_mru_mut()", true, true, false));
    for (n, mt) in [("keys", false), ("keys_lru", false), ("values", false), ("values_lru", false), ("values_mut", true), ("values_lru_mut", true), ("iter", false), ("iter_lru", false), ("iter_mut", true), ("iter_lru_mut", true)] {
        v.push(m(r, n, &format!("c.{}()", n), mt, mt, true));
    }
    v.push(m(r, "into_iter(&)", "(&c).into_iter()", false, false, true));
    v.push(m(r, "into_iter(&mut)", "(&mut c).into_iter()", true, true, true));
    let s = "SegmentedCache";
    for (n, mt, rm) in [
        ("peek_lru_from_probationary", true, false),
        ("peek_lru_mut_from_probationary", true, true),
        ("peek_mru_from_probationary", true, false),
        ("peek_mru_mut_from_probationary", true, true),
        ("peek_lru_from_protected", false, false),
        ("peek_lru_mut_from_protected", true, true),
        ("peek_mru_from_protected", false, false),
        ("peek_mru_mut_from_protected", true, true),
    ] {
        v.push(m(s, n, &format!("c.{}()", n), mt, rm, false));
    }
    for (ty, lists) in [("TwoQueueCache", vec!["recent", "frequent", "ghost"]), ("AdaptiveCache", vec!["recent", "frequent", "recent_evict", "frequent_evict"])] {
        for l in lists {
            for (n, mt) in [("keys", false), ("keys_lru", false), ("values", false), ("values_lru", false), ("values_mut", true), ("values_lru_mut", true), ("iter", false), ("iter_lru", false), ("iter_mut", true), ("iter_lru_mut", true)] {
                let name = format!("{}_{}", l, n);
                v.push(m(ty, &name, &format!("c.{}()", name), mt, mt, true));
            }
        }
    }
    v
}

/// source scan: public functions of the anchored files whose return type mentions a reference
/// or an iterator type; used to report catalogue gaps (exit 2, not a violation)
pub fn scan_sources(repo: &str) -> Vec<(String, String)> {
    let mut out = vec![];
    for (file, ty) in [
        ("src/lru/raw.rs", "RawLRU"),
        ("src/lru/segmented.rs", "SegmentedCache"),
        ("src/lru/two_queue.rs", "TwoQueueCache"),
        ("src/lru/adaptive.rs", "AdaptiveCache"),
        ("src/lfu/wtinylfu.rs", "WTinyLFUCache"),
    ] {
        let text = match std::fs::read_to_string(format!("{}/{}", repo, file)) {
            Ok(t) => t,
            Err(_) => continue,
        };
        let text = text.split("#[cfg(test)]").next().unwrap_or("").to_string();
        let mut rest = text.as_str();
        while let Some(i) = rest.find("pub fn ") {
            rest = &rest[i + 7..];
            let name: String = rest.chars().take_while(|c| c.is_alphanumeric() || *c == '_').collect();
            let sig_end = rest.find('{').unwrap_or(rest.len().min(400));
            let sig = &rest[..sig_end];
            if let Some(arrow) = sig.find("->") {
                let ret = &sig[arrow + 2..];
                let ret = ret.split("where").next().unwrap_or(ret);
                if (ret.contains('&') || ret.contains("Iter")) && !name.starts_with("verif_") {
                    out.push((ty.to_string(), name));
                }
            }
        }
    }
    out
}

#[derive(Clone, Debug)]
pub struct Probe {
    pub id: usize,
    pub method: String,
    pub template: &'static str,
    pub is_control: bool,
    pub expect: Vec<&'static str>,
    pub lines: (usize, usize),
    pub source: String,
}

pub struct Generated {
    pub source: String,
    pub probes: Vec<Probe>,
}

/// any borrow-checker rejection counts: which of them is reported depends on the receiver
/// type of the method, which the property does not pin
const BORROW_ERRORS: [&str; 9] = ["E0499", "E0502", "E0503", "E0505", "E0506", "E0597", "E0713", "E0716", "E0382"];

fn emit(src: &mut String, probes: &mut Vec<Probe>, method: &str, template: &'static str, is_control: bool, expect: Vec<&'static str>, body: &str) {
    let expect = if !is_control && expect.iter().all(|e| BORROW_ERRORS.contains(e)) { BORROW_ERRORS.to_vec() } else { expect };
    let id = probes.len();
    let start = src.lines().count() + 1;
    let f = format!("#[allow(unused)]\nfn f{}() {{\n{}\n}}\n", id, body);
    src.push_str(&f);
    let end = src.lines().count();
    probes.push(Probe { id, method: method.to_string(), template, is_control, expect, lines: (start, end), source: f });
}

/// borrow-check probes (all errors are reported by the borrow checker, per function body)
pub fn gen_borrow() -> Generated {
    let mut src = String::from("#![allow(unused_mut, unused_variables, dropping_references)]\nuse caches::*;\nfn sink<T>(_t: T) {}\n\n");
    let mut probes = vec![];
    let ctor: BTreeMap<&str, &str> = TYPES.iter().cloned().collect();
    for me in catalogue() {
        let c = ctor[me.ty];
        let name = format!("{}::{}", me.ty, me.name);
        let setup = format!("    let mut c = {};\n    c.put(1u64, String::from(\"a\"));\n    c.put(2u64, String::from(\"b\"));", c);
        // T1 hold across a later mutation
        let e1 = if me.mutable { vec!["E0499"] } else { vec!["E0502"] };
        emit(&mut src, &mut probes, &name, "hold-across-mutation", false, e1, &format!("{setup}\n    let r = {};\n    c.purge();\n    sink(r);", me.call));
        emit(&mut src, &mut probes, &name, "hold-across-mutation", true, vec![], &format!("{setup}\n    let r = {};\n    sink(r);\n    c.purge();", me.call));
        // T1b hold across a put of another key (eviction / recycling of the node)
        let e1b = if me.mutable { vec!["E0499"] } else { vec!["E0502"] };
        emit(&mut src, &mut probes, &name, "hold-across-put", false, e1b, &format!("{setup}\n    let r = {};\n    c.put(3u64, String::new());\n    sink(r);", me.call));
        // T2 drop the cache while borrowed
        emit(&mut src, &mut probes, &name, "drop-while-borrowed", false, vec!["E0505"], &format!("{setup}\n    let r = {};\n    drop(c);\n    sink(r);", me.call));
        emit(&mut src, &mut probes, &name, "drop-while-borrowed", true, vec![], &format!("{setup}\n    let r = {};\n    sink(r);\n    drop(c);", me.call));
        // T3 outlive the cache
        emit(&mut src, &mut probes, &name, "outlive-the-cache", false, vec!["E0597"], &format!("    let r;\n    {{\n    {}\n        r = {};\n    }}\n    sink(r);", setup.replace('\n', "\n    "), me.call));
        emit(&mut src, &mut probes, &name, "outlive-the-cache", true, vec![], &format!("    {{\n    {}\n        let r = {};\n        sink(r);\n    }}", setup.replace('\n', "\n    "), me.call));
        // T3b the *items* an iterator hands out must not outlive a mutation / the cache either
        if me.iterator {
            emit(&mut src, &mut probes, &name, "item-across-mutation", false, vec!["E0502"], &format!("{setup}\n    let mut it = {};\n    let x = it.next();\n    drop(it);\n    c.purge();\n    sink(x);", me.call));
            emit(&mut src, &mut probes, &name, "item-across-mutation", true, vec![], &format!("{setup}\n    let mut it = {};\n    let x = it.next();\n    drop(it);\n    sink(x);\n    c.purge();", me.call));
            emit(&mut src, &mut probes, &name, "item-outlives-cache", false, vec!["E0505"], &format!("{setup}\n    let mut it = {};\n    let x = it.next_back();\n    drop(it);\n    drop(c);\n    sink(x);", me.call));
            if me.ret_mut {
                // two items of one mutable iterator are distinct entries: fine; but an item must
                // not coexist with a second mutable iterator over the same list
                emit(&mut src, &mut probes, &name, "item-and-second-mutable-iterator", false, vec!["E0499"], &format!("{setup}\n    let mut it = {};\n    let x = it.next();\n    let mut it2 = {};\n    let y = it2.next();\n    sink(x);\n    sink(y);", me.call, me.call));
            }
        }
        // T1c a call that reorders or inserts (get, get_lru, peek_or_put) is itself a mutation: a
        // shared reference obtained before it must not be usable after it
        if me.mutable && !me.ret_mut && !me.iterator && matches!(me.name.as_str(), "get" | "get_lru" | "peek_or_put") {
            emit(&mut src, &mut probes, &name, "shared-borrow-across-reordering-call", false, vec!["E0502"], &format!("{setup}\n    let r = c.peek(&2u64);\n    let x = {};\n    sink(r);\n    sink(x);", me.call));
            emit(&mut src, &mut probes, &name, "shared-borrow-across-reordering-call", true, vec![], &format!("{setup}\n    let r = c.peek(&2u64);\n    sink(r);\n    let x = {};\n    sink(x);", me.call));
            if me.ty == "RawLRU" {
                emit(&mut src, &mut probes, &name, "iterator-across-reordering-call", false, vec!["E0502"], &format!("{setup}\n    let it = c.iter();\n    let x = {};\n    sink(it);\n    sink(x);", me.call));
            }
        }
        // T4 two live mutable references
        if me.ret_mut {
            emit(&mut src, &mut probes, &name, "double-mutable", false, vec!["E0499"], &format!("{setup}\n    let a = {};\n    let b = {};\n    sink(a);\n    sink(b);", me.call, me.call));
            emit(&mut src, &mut probes, &name, "double-mutable", true, vec![], &format!("{setup}\n    let a = {};\n    sink(a);\n    let b = {};\n    sink(b);", me.call, me.call));
            // a mutable reference / mutable iterator must not be duplicable by a plain copy
            emit(&mut src, &mut probes, &name, "copy-of-mutable-borrow", false, vec!["E0382"], &format!("{setup}\n    let a = {};\n    let b = a;\n    sink(a);\n    sink(b);", me.call));
            // a shared lookup while the mutable reference is live
            emit(&mut src, &mut probes, &name, "shared-while-mutable", false, vec!["E0502"], &format!("{setup}\n    let a = {};\n    let b = c.peek(&2u64);\n    sink(a);\n    sink(b);", me.call));
        }
    }
    Generated { source: src, probes }
}

/// cross-thread probes (rejected during type checking: separate crate)
pub fn gen_threads() -> Generated {
    let mut src = String::from("#![allow(unused_mut, unused_variables)]\nuse caches::*;\nuse std::cell::Cell;\nfn sink<T>(_t: T) {}\n\n");
    let mut probes = vec![];
    let ctor = |ty: &str, v: &str| -> String {
        match ty {
            "RawLRU" => format!("RawLRU::<u64, {v}>::new(4).unwrap()"),
            "TwoQueueCache" => format!("TwoQueueCache::<u64, {v}>::new(4).unwrap()"),
            _ => format!("AdaptiveCache::<u64, {v}>::new(4).unwrap()"),
        }
    };
    for me in catalogue().into_iter().filter(|m| m.iterator && !m.ret_mut) {
        // key-only iterators never touch the values: sending them is fine
        if me.name.ends_with("keys") || me.name.ends_with("keys_lru") {
            continue;
        }
        let name = format!("{}::{}", me.ty, me.name);
        for (v, mk, control) in [("Cell<u64>", "Cell::new(1)", false), ("u64", "1u64", true)] {
            let body = format!(
                "    let mut c = {};\n    c.put(1u64, {mk});\n    let it = {};\n    std::thread::scope(|s| {{\n        s.spawn(move || {{\n            for x in it {{\n                sink(x);\n            }}\n        }});\n    }});",
                ctor(me.ty, v),
                me.call
            );
            emit(&mut src, &mut probes, &name, "send-shared-iterator-over-non-sync-values", control, if control { vec![] } else { vec!["E0277"] }, &body);
        }
    }
    // an iterator that hands out `&mut V` must not be Clone (two clones advance over the same
    // entries: two live `&mut` to one value); the shared iterators are Clone (control)
    for me in catalogue().into_iter().filter(|m| m.iterator) {
        let name = format!("{}::{}", me.ty, me.name);
        let c = match me.ty {
            "RawLRU" => "RawLRU::<u64, String>::new(4).unwrap()",
            "TwoQueueCache" => "TwoQueueCache::<u64, String>::new(4).unwrap()",
            _ => "AdaptiveCache::<u64, String>::new(4).unwrap()",
        };
        let body = format!("    let mut c = {};\n    c.put(1u64, String::new());\n    let a = {};\n    let b = a.clone();\n    sink(a);\n    sink(b);", c, me.call);
        if me.ret_mut {
            emit(&mut src, &mut probes, &name, "clone-of-mutable-iterator", false, vec!["E0599", "E0277"], &body);
        } else {
            emit(&mut src, &mut probes, &name, "clone-of-mutable-iterator", true, vec![], &body);
        }
    }
    // sharing a whole cache of !Sync values between threads
    for (ty, _) in TYPES.iter() {
        let c = match *ty {
            "RawLRU" => "RawLRU::<u64, VTYPE>::new(4).unwrap()",
            "SegmentedCache" => "SegmentedCache::<u64, VTYPE>::new(2, 2).unwrap()",
            "TwoQueueCache" => "TwoQueueCache::<u64, VTYPE>::new(4).unwrap()",
            "AdaptiveCache" => "AdaptiveCache::<u64, VTYPE>::new(4).unwrap()",
            _ => "WTinyLFUCache::<u64, VTYPE>::with_sizes(1, 2, 2, 8).unwrap()",
        };
        for (v, mk, control) in [("Cell<u64>", "Cell::new(1)", false), ("u64", "1u64", true)] {
            let body = format!(
                "    let mut c = {};\n    c.put(1u64, {mk});\n    let r = &c;\n    std::thread::scope(|s| {{\n        s.spawn(move || {{\n            sink(r.peek(&1u64));\n        }});\n    }});",
                c.replace("VTYPE", v)
            );
            emit(&mut src, &mut probes, &format!("{}::(shared reference)", ty), "share-cache-of-non-sync-values", control, if control { vec![] } else { vec!["E0277"] }, &body);
        }
        for (v, mk, control) in [("std::rc::Rc<u64>", "std::rc::Rc::new(1)", false), ("u64", "1u64", true)] {
            let body = format!(
                "    let mut c = {};\n    c.put(1u64, {mk});\n    std::thread::scope(|s| {{\n        s.spawn(move || {{\n            sink(c.len());\n        }});\n    }});",
                c.replace("VTYPE", v)
            );
            emit(&mut src, &mut probes, &format!("{}::(by value)", ty), "send-cache-of-non-send-values", control, if control { vec![] } else { vec!["E0277"] }, &body);
        }
    }
    // the index key type `KeyRef<K>` is public (doc-hidden) and dereferences a raw pointer in its
    // Hash / PartialEq: safe code must have no way to make one
    for (i, body) in [
        "    let k = 1u64;\n    let r: KeyRef<u64> = KeyRef::from(&k);\n    sink(r);",
        "    let k = 1u64;\n    let r: KeyRef<u64> = (&k).into();\n    sink(r);",
        "    let r: KeyRef<u64> = Default::default();\n    sink(r);",
        "    let k = 1u64;\n    let r: KeyRef<u64> = KeyRef::new(&k);\n    sink(r);",
        "    let k = 1u64;\n    let r: KeyRef<u64> = KeyRef::from(&k as *const u64);\n    sink(r);",
    ]
    .iter()
    .enumerate()
    {
        emit(&mut src, &mut probes, &format!("KeyRef::safe-constructor-{i}"), "keyref-constructible", false, vec!["E0308", "E0277", "E0599", "E0451", "E0423", "E0560", "E0616", "E0639"], body);
    }
    Generated { source: src, probes }
}

pub const MARKER_KINDS: [&str; 4] = ["SS", "SendOnly", "SyncOnly", "Neither"];

/// the Send/Sync table program
pub fn gen_markers() -> String {
    let mut s = String::from(
        r#"#![allow(dead_code)]
use caches::lru::*;
use caches::*;
use std::cell::Cell;
use std::marker::PhantomData;
use std::sync::MutexGuard;

macro_rules! marker { ($n:ident, $p:ty) => {
    #[derive(Hash, PartialEq, Eq, Clone)]
    pub struct $n(u64, PhantomData<$p>);
} }
marker!(SS, u8);
marker!(SendOnly, Cell<u8>);
marker!(SyncOnly, MutexGuard<'static, u8>);
marker!(Neither, *const u8);

struct IsSend<T>(PhantomData<T>);
struct IsSync<T>(PhantomData<T>);
trait No { const V: bool = false; }
impl<T> No for IsSend<T> {}
impl<T> No for IsSync<T> {}
impl<T: Send> IsSend<T> { const V: bool = true; }
impl<T: Sync> IsSync<T> { const V: bool = true; }

macro_rules! row { ($name:expr, $k:ident, $v:ident, $t:ty) => {
    println!("{{\"type\":\"{}\",\"k\":\"{}\",\"v\":\"{}\",\"send\":{},\"sync\":{}}}", $name, stringify!($k), stringify!($v), IsSend::<$t>::V, IsSync::<$t>::V);
} }
macro_rules! rows { ($k:ident, $v:ident) => {
    row!("RawLRU", $k, $v, RawLRU<$k, $v>);
    row!("SegmentedCache", $k, $v, SegmentedCache<$k, $v>);
    row!("TwoQueueCache", $k, $v, TwoQueueCache<$k, $v>);
    row!("AdaptiveCache", $k, $v, AdaptiveCache<$k, $v>);
    row!("WTinyLFUCache", $k, $v, WTinyLFUCache<$k, $v>);
    row!("MRUIter", $k, $v, MRUIter<'static, $k, $v>);
    row!("LRUIter", $k, $v, LRUIter<'static, $k, $v>);
    row!("MRUIterMut", $k, $v, MRUIterMut<'static, $k, $v>);
    row!("LRUIterMut", $k, $v, LRUIterMut<'static, $k, $v>);
    row!("KeysMRUIter", $k, $v, KeysMRUIter<'static, $k, $v>);
    row!("KeysLRUIter", $k, $v, KeysLRUIter<'static, $k, $v>);
    row!("ValuesMRUIter", $k, $v, ValuesMRUIter<'static, $k, $v>);
    row!("ValuesLRUIter", $k, $v, ValuesLRUIter<'static, $k, $v>);
    row!("ValuesMRUIterMut", $k, $v, ValuesMRUIterMut<'static, $k, $v>);
    row!("ValuesLRUIterMut", $k, $v, ValuesLRUIterMut<'static, $k, $v>);
} }

type D = DefaultHashBuilder;
macro_rules! rows_param { ($p:ident) => {
    row!("RawLRU/S", $p, SS, RawLRU<SS, SS, DefaultEvictCallback, $p>);
    row!("RawLRU/E", $p, SS, RawLRU<SS, SS, $p, D>);
    row!("SegmentedCache/S", $p, SS, SegmentedCache<SS, SS, $p, D>);
    row!("SegmentedCache/S", $p, SS, SegmentedCache<SS, SS, D, $p>);
    row!("TwoQueueCache/S", $p, SS, TwoQueueCache<SS, SS, $p, D, D>);
    row!("TwoQueueCache/S", $p, SS, TwoQueueCache<SS, SS, D, $p, D>);
    row!("TwoQueueCache/S", $p, SS, TwoQueueCache<SS, SS, D, D, $p>);
    row!("AdaptiveCache/S", $p, SS, AdaptiveCache<SS, SS, $p, D, D, D>);
    row!("AdaptiveCache/S", $p, SS, AdaptiveCache<SS, SS, D, $p, D, D>);
    row!("AdaptiveCache/S", $p, SS, AdaptiveCache<SS, SS, D, D, $p, D>);
    row!("AdaptiveCache/S", $p, SS, AdaptiveCache<SS, SS, D, D, D, $p>);
    row!("WTinyLFUCache/S", $p, SS, WTinyLFUCache<SS, SS, $p, D, D, D>);
    row!("WTinyLFUCache/S", $p, SS, WTinyLFUCache<SS, SS, caches::lfu::DefaultKeyHasher<SS>, $p, D, D>);
    row!("WTinyLFUCache/S", $p, SS, WTinyLFUCache<SS, SS, caches::lfu::DefaultKeyHasher<SS>, D, $p, D>);
    row!("WTinyLFUCache/S", $p, SS, WTinyLFUCache<SS, SS, caches::lfu::DefaultKeyHasher<SS>, D, D, $p>);
    row!("TinyLFU/H", $p, SS, caches::lfu::TinyLFU<SS, $p>);
    row!("SampledLFU/H", $p, SS, caches::lfu::SampledLFU<SS, $p, D>);
    row!("SampledLFU/H", $p, SS, caches::lfu::SampledLFU<SS, caches::lfu::DefaultKeyHasher<SS>, $p>);
} }

fn main() {
"#,
    );
    for k in MARKER_KINDS {
        for v in MARKER_KINDS {
            let _ = writeln!(s, "    rows!({}, {});", k, v);
        }
    }
    for k in MARKER_KINDS {
        let _ = writeln!(s, "    rows_param!({});", k);
    }
    s.push_str("}\n");
    s
}

fn is_send(kind: &str) -> bool {
    matches!(kind, "SS" | "SendOnly")
}
fn is_sync(kind: &str) -> bool {
    matches!(kind, "SS" | "SyncOnly")
}

/// the implications soundness needs (only these are demanded; stricter bounds never alarm)
pub fn judge_marker(ty: &str, k: &str, v: &str, send: bool, sync: bool) -> Option<String> {
    let need = |cond: bool, what: &str| -> Option<String> {
        if cond {
            None
        } else {
            Some(what.to_string())
        }
    };
    match ty {
        "RawLRU" | "SegmentedCache" | "TwoQueueCache" | "AdaptiveCache" | "WTinyLFUCache" => {
            if send {
                if let Some(w) = need(is_send(k) && is_send(v), "a cache is Send although its keys or values are not Send") {
                    return Some(w);
                }
            }
            if sync {
                if let Some(w) = need(is_sync(k) && is_sync(v), "a cache is Sync although its keys or values are not Sync") {
                    return Some(w);
                }
            }
        }
        // the hasher(s) are called through `&self` (lookups) and move with the cache; the
        // callback moves with the cache (k = the marker kind of that parameter)
        "RawLRU/S" | "SegmentedCache/S" | "TwoQueueCache/S" | "AdaptiveCache/S" | "WTinyLFUCache/S" => {
            if send {
                if let Some(w) = need(is_send(k), "a cache is Send although one of its hashers is not Send") {
                    return Some(w);
                }
            }
            if sync {
                if let Some(w) = need(is_sync(k), "a cache is Sync although one of its hashers (used through &self by every lookup) is not Sync") {
                    return Some(w);
                }
            }
        }
        // the estimator and the cost tracker hash keys through `&self` with their key hasher /
        // hasher (the key type itself is only a marker there)
        "TinyLFU/H" | "SampledLFU/H" => {
            if send {
                if let Some(w) = need(is_send(k), "an estimator / cost tracker is Send although its key hasher or hasher is not Send") {
                    return Some(w);
                }
            }
            if sync {
                if let Some(w) = need(is_sync(k), "an estimator / cost tracker is Sync although its key hasher or hasher (used through &self) is not Sync") {
                    return Some(w);
                }
            }
        }
        "RawLRU/E" => {
            if send {
                return need(is_send(k), "a cache is Send although its eviction callback is not Send");
            }
        }
        "MRUIter" | "LRUIter" => {
            if send || sync {
                return need(is_sync(k) && is_sync(v), "an iterator handing out &K and &V is Send/Sync although K or V is not Sync");
            }
        }
        "KeysMRUIter" | "KeysLRUIter" => {
            if send || sync {
                return need(is_sync(k), "an iterator handing out &K is Send/Sync although K is not Sync");
            }
        }
        "ValuesMRUIter" | "ValuesLRUIter" => {
            if send || sync {
                return need(is_sync(v), "an iterator handing out &V is Send/Sync although V is not Sync");
            }
        }
        "MRUIterMut" | "LRUIterMut" => {
            if send {
                return need(is_sync(k) && is_send(v), "an iterator handing out &K and &mut V is Send although K is not Sync or V is not Send");
            }
        }
        "ValuesMRUIterMut" | "ValuesLRUIterMut" => {
            if send {
                return need(is_send(v), "an iterator handing out &mut V is Send although V is not Send");
            }
        }
        _ => {}
    }
    None
}

pub fn repo_dir() -> String {
    std::env::var("VERIF_REPO").unwrap_or_else(|_| "/repo".into())
}

fn write_crate(dir: &str, name: &str, main: bool, source: &str, lock_from: &str) -> std::io::Result<()> {
    std::fs::create_dir_all(format!("{}/src", dir))?;
    std::fs::write(
        format!("{}/Cargo.toml", dir),
        format!("[package]\nname = \"{}\"\nversion = \"0.0.0\"\nedition = \"2021\"\npublish = false\n\n[dependencies]\ncaches = {{ path = \"{}\" }}\n\n[workspace]\n", name, repo_dir()),
    )?;
    std::fs::write(format!("{}/src/{}", dir, if main { "main.rs" } else { "lib.rs" }), source)?;
    let _ = std::fs::copy(format!("{}/Cargo.lock", lock_from), format!("{}/Cargo.lock", dir));
    Ok(())
}

/// run `cargo check --message-format=json` and return (line -> set of error codes with that
/// primary span line, other diagnostics without a code)
fn cargo_check(dir: &str, target: &str) -> Result<(Vec<(usize, String, String)>, String), String> {
    let o = std::process::Command::new("cargo")
        .args(["check", "--offline", "--message-format=json", "--target-dir", target])
        .current_dir(dir)
        .env("CARGO_NET_OFFLINE", "true")
        .output()
        .map_err(|e| format!("cannot run cargo: {e}"))?;
    let mut errs = vec![];
    let text = String::from_utf8_lossy(&o.stdout);
    for line in text.lines() {
        let v: Value = match serde_json::from_str(line) {
            Ok(v) => v,
            Err(_) => continue,
        };
        if v["reason"] != "compiler-message" {
            continue;
        }
        let msg = &v["message"];
        if msg["level"] != "error" {
            continue;
        }
        let code = msg["code"]["code"].as_str().unwrap_or("").to_string();
        let text = msg["message"].as_str().unwrap_or("").to_string();
        let mut line_no = 0usize;
        let mut in_src = false;
        if let Some(spans) = msg["spans"].as_array() {
            for sp in spans {
                if sp["is_primary"] == true {
                    line_no = sp["line_start"].as_u64().unwrap_or(0) as usize;
                    in_src = sp["file_name"].as_str().map(|f| f.starts_with("src/")).unwrap_or(false);
                }
            }
        }
        if !in_src {
            // an error outside the generated file (e.g. the library itself does not compile)
            if text.starts_with("aborting due to") || text.starts_with("could not compile") {
                continue;
            }
            return Err(format!("compiler error outside the generated probes: {} {}", code, text));
        }
        errs.push((line_no, code, text));
    }
    Ok((errs, String::from_utf8_lossy(&o.stderr).to_string()))
}

pub struct E5Result {
    pub programs: usize,
    pub probes: usize,
    pub controls: usize,
    pub marker_rows: usize,
    pub violation: Option<(Violation, Value)>,
    pub inconclusive: Option<String>,
    pub samples: Vec<Value>,
    pub by_template: BTreeMap<String, usize>,
    pub uncovered: Vec<String>,
}

fn judge_generated(g: &Generated, errs: &[(usize, String, String)], crate_name: &str) -> Option<(Violation, Value)> {
    for p in &g.probes {
        let mine: Vec<&(usize, String, String)> = errs.iter().filter(|e| e.0 >= p.lines.0 && e.0 <= p.lines.1).collect();
        if p.is_control {
            if let Some(e) = mine.first() {
                // a control that is rejected means the probe next to it proves nothing
                return Some((
                    Violation { prop: "C19", step: p.id, msg: format!("[{}] positive control for {} / {} is rejected by the compiler: {} {}", crate_name, p.method, p.template, e.1, e.2), sig: format!("{}/{}/control-rejected", p.method, p.template) },
                    json!({"program": p.source, "expected": "compiles", "actual": format!("{} {}", e.1, e.2)}),
                ));
            }
        } else {
            let ok = mine.iter().any(|e| p.expect.contains(&e.1.as_str()));
            if !ok {
                let actual: Vec<String> = mine.iter().map(|e| format!("{} {}", e.1, e.2)).collect();
                return Some((
                    Violation {
                        prop: "C19",
                        step: p.id,
                        msg: format!("[{}] misuse program for {} / {} is not rejected as expected (expected one of {:?}, compiler said {:?}):\n{}", crate_name, p.method, p.template, p.expect, actual, p.source),
                        sig: format!("{}/{}/accepted", p.method, p.template),
                    },
                    json!({"program": p.source, "expected": p.expect, "actual": actual}),
                ));
            }
        }
    }
    None
}

pub fn run_e5(verif_dir: &str) -> E5Result {
    let mut res = E5Result { programs: 0, probes: 0, controls: 0, marker_rows: 0, violation: None, inconclusive: None, samples: vec![], by_template: BTreeMap::new(), uncovered: vec![] };
    // catalogue completeness
    let cat = catalogue();
    let known: BTreeSet<(String, String)> = cat.iter().map(|m| (m.ty.to_string(), m.name.split('(').next().unwrap().to_string())).collect();
    for (ty, name) in scan_sources(&repo_dir()) {
        let covered = known.contains(&(ty.clone(), name.clone()))
            || matches!(name.as_str(), "get_" | "get_mut_" | "peek_" | "peek_mut_" | "builder" | "new" | "from_builder" | "hash_key" | "finalize" | "with_hasher" | "with_sizes" | "set_size")
            || name.starts_with("set_")
            || name.starts_with("with_");
        if !covered {
            res.uncovered.push(format!("{}::{}", ty, name));
        }
    }
    if !res.uncovered.is_empty() {
        res.inconclusive = Some(format!("public reference-returning methods missing from the probe catalogue: {:?}", res.uncovered));
        return res;
    }
    let work = format!("{}/work/c19", verif_dir);
    let target = format!("{}/target/c19", verif_dir);
    let lock = format!("{}/harness", verif_dir);
    let borrow = gen_borrow();
    let threads = gen_threads();
    for (name, g) in [("borrow", &borrow), ("threads", &threads)] {
        let dir = format!("{}/{}", work, name);
        if let Err(e) = write_crate(&dir, &format!("c19_{}", name), false, &g.source, &lock) {
            res.inconclusive = Some(format!("cannot write probe crate: {e}"));
            return res;
        }
        let (errs, _stderr) = match cargo_check(&dir, &target) {
            Ok(x) => x,
            Err(e) => {
                res.inconclusive = Some(e);
                return res;
            }
        };
        for p in &g.probes {
            res.programs += 1;
            if p.is_control {
                res.controls += 1;
            } else {
                res.probes += 1;
            }
            *res.by_template.entry(p.template.to_string()).or_default() += 1;
        }
        if res.samples.len() < 3 {
            if let Some(p) = g.probes.iter().find(|p| !p.is_control && p.template != "hold-across-mutation") {
                res.samples.push(json!({"crate": name, "method": p.method, "template": p.template, "expected_error": p.expect, "program": p.source}));
            }
            if let Some(p) = g.probes.iter().rev().find(|p| !p.is_control) {
                res.samples.push(json!({"crate": name, "method": p.method, "template": p.template, "expected_error": p.expect, "program": p.source}));
            }
        }
        if res.violation.is_none() {
            res.violation = judge_generated(g, &errs, name);
        }
    }
    // marker table
    let dir = format!("{}/markers", work);
    if let Err(e) = write_crate(&dir, "c19_markers", true, &gen_markers(), &lock) {
        res.inconclusive = Some(format!("cannot write marker crate: {e}"));
        return res;
    }
    let o = std::process::Command::new("cargo").args(["run", "--offline", "--quiet", "--target-dir", &target]).current_dir(&dir).env("CARGO_NET_OFFLINE", "true").output();
    match o {
        Err(e) => res.inconclusive = Some(format!("cannot run the marker program: {e}")),
        Ok(o) if !o.status.success() => res.inconclusive = Some(format!("the marker program does not build/run: {}", String::from_utf8_lossy(&o.stderr).lines().rev().take(6).collect::<Vec<_>>().join(" | "))),
        Ok(o) => {
            for line in String::from_utf8_lossy(&o.stdout).lines() {
                if let Ok(v) = serde_json::from_str::<Value>(line) {
                    res.marker_rows += 1;
                    let (ty, k, vv) = (v["type"].as_str().unwrap_or(""), v["k"].as_str().unwrap_or(""), v["v"].as_str().unwrap_or(""));
                    let (send, sync) = (v["send"].as_bool().unwrap_or(false), v["sync"].as_bool().unwrap_or(false));
                    if let Some(why) = judge_marker(ty, k, vv, send, sync) {
                        if res.violation.is_none() {
                            res.violation = Some((
                                Violation { prop: "C19", step: 0, msg: format!("{}<K = {}, V = {}> is Send = {}, Sync = {}: {}", ty, k, vv, send, sync, why), sig: format!("marker/{}/{}-{}", ty, k, vv) },
                                json!({"marker_row": v, "why": why}),
                            ));
                        }
                    }
                }
            }
            if res.marker_rows != 16 * 15 + 4 * 18 {
                res.inconclusive = Some(format!("marker table has {} rows, expected {}", res.marker_rows, 16 * 15 + 4 * 18));
            }
        }
    }
    res
}
