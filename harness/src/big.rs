//! Large-scale engine: caches holding 10^3 .. 1.3 * 10^5 entries (around 1024, 4096, 65536,
//! 131072), u64 keys, a sequential prefill and a short generated history aimed at the ends of
//! the recency order. Code paths gated by a size constant ("bulk" paths, u16 narrowing, clamps)
//! are dead at the capacities the history engines use.
//!
//! Oracles (model-free for the composite caches, exact O(log n) reference for the plain LRU):
//!   C01  len() <= cap(), len() == number of entries known to be resident (kinds that report
//!        every departure), is_empty() consistent, no eviction while there is room (LRU, 2Q, ARC)
//!   C02  every value handed out is the one last stored for that key; contains / peek / peek_mut
//!        agree; a key reported evicted, removed or purged is not resident afterwards
//!   C03  structural audit of every inner list at checkpoints and at the end, liveness of the
//!        values read
//!   C04  tracked values: live objects == retained entries at checkpoints, none after the drop
//!   C06  RawLRU: every result and (at checkpoints) the full order against an exact reference
//!   C13  the same history with read-only calls inserted after every step gives the same results
use crate::inst::*;
use crate::interp::{CaseReport, Violation};
use crate::ops::Kind;
use caches::{AdaptiveCache, Cache, PutResult, RawLRU, ResizableCache, SegmentedCache, TwoQueueCache, WTinyLFUCache};
use proptest::prelude::*;
use serde::{Deserialize, Serialize};
use std::collections::{BTreeMap, HashMap};
use std::panic::{catch_unwind, AssertUnwindSafe};

#[derive(Clone, Copy, Debug, Serialize, Deserialize, PartialEq)]
pub enum Sel {
    /// a key that was never put
    New,
    /// among all keys ever put, the one at this fraction (0 = oldest, 65535 = newest)
    Frac(u16),
    /// the n-th oldest / n-th newest key ever put
    Oldest(u8),
    Newest(u8),
}

#[derive(Clone, Debug, Serialize, Deserialize, PartialEq)]
pub enum BOp {
    Put(Sel),
    /// that many puts of new keys in a row
    PutNew(u16),
    Get(Sel),
    GetMut(Sel),
    Peek(Sel),
    PeekMut(Sel),
    Contains(Sel),
    Remove(Sel),
    Purge,
    /// RawLRU only
    RemoveLru,
    GetLru,
    /// RawLRU only: absolute target, or (if `rel`) current len minus / plus a small number
    Resize { to: u32, rel: bool },
}

#[derive(Clone, Debug, Serialize, Deserialize)]
pub struct BigCase {
    pub kind: Kind,
    /// Lru/TwoQ/Arc: capacity. Seg: probationary. Wtl: probationary of the main cache
    pub a: u32,
    /// Seg: protected. Wtl: protected (the window is `w`)
    pub b: u32,
    pub w: u32,
    /// sequential puts of keys 0..prefill before the history
    pub prefill: u32,
    pub ops: Vec<BOp>,
}

#[derive(Clone, Copy, PartialEq, Eq, Debug)]
pub enum BigProp {
    C01,
    C02,
    C03,
    C04,
    C06,
    C07,
    C08,
    C09,
    C13,
}
impl BigProp {
    pub fn id(self) -> &'static str {
        match self {
            BigProp::C01 => "C01",
            BigProp::C02 => "C02",
            BigProp::C03 => "C03",
            BigProp::C04 => "C04",
            BigProp::C06 => "C06",
            BigProp::C07 => "C07",
            BigProp::C08 => "C08",
            BigProp::C09 => "C09",
            BigProp::C13 => "C13",
        }
    }
}

pub const BIG_SIZES: [u32; 18] = [257, 300, 1000, 1023, 1024, 1025, 2049, 4095, 4096, 4097, 65535, 65536, 65537, 70_000, 131_072, 131_073, 262_150, 524_289];

pub fn big_strategy(kinds: Vec<Kind>, thorough: bool) -> BoxedStrategy<BigCase> {
    fn near() -> BoxedStrategy<u8> {
        prop_oneof![6 => 0u8..6, 2 => 60u8..70, 2 => 200u8..=255].boxed()
    }
    let sel = || prop_oneof![3 => Just(Sel::New), 2 => any::<u16>().prop_map(Sel::Frac), 3 => near().prop_map(Sel::Oldest), 3 => near().prop_map(Sel::Newest)];
    let size = prop_oneof![3 => prop::sample::select(BIG_SIZES[..10].to_vec()), if thorough { 3 } else { 2 } => prop::sample::select(BIG_SIZES[10..].to_vec())];
    (prop::sample::select(kinds), size, prop::sample::select(vec![1u32, 2, 3, 64, 65, 300, 1025, 65_537]), prop::sample::select(vec![1u32, 2, 64, 65, 300]), 0u8..6)
        .prop_flat_map(move |(kind, a, b, w, fill)| {
            let total = match kind {
                Kind::Seg => a + b,
                Kind::Wtl => a + b + w,
                _ => a,
            };
            let prefill = match fill {
                0 => total.saturating_sub(1),
                1 => total,
                2 => total + 1,
                3 => total + 300,
                4 => total / 2,
                _ => total + total / 3,
            };
            let mut v: Vec<(u32, BoxedStrategy<BOp>)> = vec![
                (6, sel().prop_map(BOp::Put).boxed()),
                (2, prop_oneof![Just(1u16), Just(2), Just(300), Just(1100)].prop_map(BOp::PutNew).boxed()),
                (4, sel().prop_map(BOp::Get).boxed()),
                (2, sel().prop_map(BOp::GetMut).boxed()),
                (3, sel().prop_map(BOp::Peek).boxed()),
                (2, sel().prop_map(BOp::PeekMut).boxed()),
                (2, sel().prop_map(BOp::Contains).boxed()),
                (3, sel().prop_map(BOp::Remove).boxed()),
                (1, Just(BOp::Purge).boxed()),
            ];
            if kind == Kind::Lru {
                v.push((2, Just(BOp::RemoveLru).boxed()));
                v.push((2, Just(BOp::GetLru).boxed()));
                v.push((3, prop_oneof![Just(0u32), Just(1), Just(2), Just(10), Just(255), Just(256), Just(600), Just(4096), Just(65_536), Just(70_000), Just(200_000), Just(3), Just(5)].prop_map(|to| BOp::Resize { to, rel: false }).boxed()));
                v.push((1, (0u32..4).prop_map(|to| BOp::Resize { to, rel: true }).boxed()));
                v.push((2, Just(BOp::Resize { to: 0, rel: false }).boxed()));
            }
            (Just(kind), Just(a), Just(b), Just(w), Just(prefill), prop::collection::vec(proptest::strategy::Union::new_weighted(v), 1..=(if thorough { 40 } else { 20 })))
        })
        .prop_map(|(kind, a, b, w, prefill, ops)| BigCase { kind, a, b, w, prefill, ops })
        .boxed()
}

enum BigC {
    Lru(RawLRU<u64, TVal>),
    Seg(SegmentedCache<u64, TVal>),
    TwoQ(TwoQueueCache<u64, TVal>),
    Arc(AdaptiveCache<u64, TVal>),
    Wtl(WTinyLFUCache<u64, TVal, KHS<u64>, HS, HS, HS>),
}

macro_rules! each {
    ($s:expr, $c:ident => $e:expr) => {
        match $s {
            BigC::Lru($c) => $e,
            BigC::Seg($c) => $e,
            BigC::TwoQ($c) => $e,
            BigC::Arc($c) => $e,
            BigC::Wtl($c) => $e,
        }
    };
}

impl BigC {
    fn build(case: &BigCase) -> Result<BigC, String> {
        Ok(match case.kind {
            Kind::Seg => BigC::Seg(SegmentedCache::new(case.a as usize, case.b as usize).map_err(|e| e.to_string())?),
            Kind::TwoQ => BigC::TwoQ(TwoQueueCache::new(case.a as usize).map_err(|e| e.to_string())?),
            Kind::Arc => BigC::Arc(AdaptiveCache::new(case.a as usize).map_err(|e| e.to_string())?),
            Kind::Wtl => {
                // deterministic estimator: identity key hasher, pinned sketch seed (std build)
                #[cfg(feature = "std")]
                caches::lfu::verif_pin_sketch_seed(Some(7));
                let r = caches::WTinyLFUCacheBuilder::<u64, KHS<u64>, HS, HS, HS>::with_hashers(KHS::Fnv(3), HS::Fnv(1), HS::Fnv(2), HS::Fnv(3))
                    .set_window_cache_size(case.w as usize)
                    .set_protected_cache_size(case.b as usize)
                    .set_probationary_cache_size(case.a as usize)
                    .set_samples(64)
                    .finalize::<TVal>();
                #[cfg(feature = "std")]
                caches::lfu::verif_pin_sketch_seed(None);
                BigC::Wtl(r.map_err(|e| e.to_string())?)
            }
            _ => BigC::Lru(RawLRU::new(case.a as usize).map_err(|e| e.to_string())?),
        })
    }
    /// entries retained including ghosts
    fn retained(&self) -> usize {
        match self {
            BigC::TwoQ(c) => c.len() + c.ghost_len(),
            BigC::Arc(c) => c.len() + c.recent_evict_len() + c.frequent_evict_len(),
            other => each!(other, c => c.len()),
        }
    }
    fn audit(&self) -> Result<(), String> {
        match self {
            BigC::Lru(c) => c.verif_audit(),
            BigC::Seg(c) => c.verif_probationary().verif_audit().and(c.verif_protected().verif_audit()),
            BigC::TwoQ(c) => c.verif_recent().verif_audit().and(c.verif_frequent().verif_audit()).and(c.verif_ghost().verif_audit()),
            BigC::Arc(c) => c.verif_recent().verif_audit().and(c.verif_frequent().verif_audit()).and(c.verif_recent_evict().verif_audit()).and(c.verif_frequent_evict().verif_audit()),
            BigC::Wtl(c) => c.verif_window().verif_audit().and(c.verif_main().verif_probationary().verif_audit()).and(c.verif_main().verif_protected().verif_audit()),
        }
    }
    /// does the kind report every departure of a resident entry through PutResult / remove?
    fn reports_all(&self) -> bool {
        matches!(self, BigC::Lru(_) | BigC::Seg(_) | BigC::Wtl(_))
    }
}

/// exact LRU reference with O(log n) operations
#[derive(Default)]
struct LruRef {
    cap: usize,
    stamp: u64,
    by_stamp: BTreeMap<u64, u64>,
    by_key: HashMap<u64, (u64, u32)>,
}
impl LruRef {
    fn touch(&mut self, k: u64) {
        if let Some((s, _)) = self.by_key.get(&k).copied() {
            self.by_stamp.remove(&s);
            self.stamp += 1;
            self.by_stamp.insert(self.stamp, k);
            self.by_key.get_mut(&k).unwrap().0 = self.stamp;
        }
    }
    /// (kind of result, evicted key)
    fn put(&mut self, k: u64, v: u32) -> (String, Option<(u64, u32)>) {
        if self.by_key.contains_key(&k) {
            self.touch(k);
            let old = std::mem::replace(&mut self.by_key.get_mut(&k).unwrap().1, v);
            return (format!("Update({old})"), None);
        }
        if self.cap == 0 {
            return (format!("Evicted({k}, {v})"), None);
        }
        let mut ev = None;
        if self.by_key.len() >= self.cap {
            ev = self.pop_lru();
        }
        self.stamp += 1;
        self.by_stamp.insert(self.stamp, k);
        self.by_key.insert(k, (self.stamp, v));
        match ev {
            Some((ek, evv)) => (format!("Evicted({ek}, {evv})"), Some((ek, evv))),
            None => ("Put".into(), None),
        }
    }
    fn pop_lru(&mut self) -> Option<(u64, u32)> {
        let (s, k) = self.by_stamp.iter().next().map(|(s, k)| (*s, *k))?;
        self.by_stamp.remove(&s);
        let (_, v) = self.by_key.remove(&k)?;
        Some((k, v))
    }
    fn remove(&mut self, k: u64) -> Option<u32> {
        let (s, v) = self.by_key.remove(&k)?;
        self.by_stamp.remove(&s);
        Some(v)
    }
    fn order_mru_first(&self) -> Vec<(u64, u32)> {
        self.by_stamp.values().rev().map(|k| (*k, self.by_key[k].1)).collect()
    }
}

fn pr(r: PutResult<u64, TVal>) -> (String, Option<(u64, u32)>, Option<u32>) {
    match r {
        PutResult::Put => ("Put".into(), None, None),
        PutResult::Update(v) => (format!("Update({})", v.read()), None, Some(v.read())),
        PutResult::Evicted { key, value } => (format!("Evicted({}, {})", key, value.read()), Some((key, value.read())), None),
        PutResult::EvictedAndUpdate { evicted, update } => (format!("EvictedAndUpdate(({}, {}), {})", evicted.0, evicted.1.read(), update.read()), Some((evicted.0, evicted.1.read())), Some(update.read())),
    }
}

struct Run<'a> {
    case: &'a BigCase,
    prop: BigProp,
    c: BigC,
    /// last value stored for every key that may still be retained
    shadow: HashMap<u64, u32>,
    next: u64,
    lru: Option<LruRef>,
    /// results, for the twin comparison of C13
    trace: Vec<String>,
    /// insert read-only calls after every step (C13 twin)
    with_reads: bool,
    step: usize,
}

fn vio(prop: BigProp, step: usize, class: &str, msg: String) -> Violation {
    Violation { prop: prop.id(), step, msg, sig: format!("big/-/{}", class) }
}

impl<'a> Run<'a> {
    fn key_of(&mut self, s: Sel) -> u64 {
        match s {
            Sel::New => {
                self.next += 1;
                self.next - 1
            }
            Sel::Frac(f) => (self.next as u128 * f as u128 / 65536) as u64,
            Sel::Oldest(n) => (n as u64).min(self.next.saturating_sub(1)),
            Sel::Newest(n) => self.next.saturating_sub(1 + n as u64),
        }
    }

    fn what(&self, op: &str) -> String {
        format!("step {} {} on {} (a = {}, b = {}, w = {}, prefill {})", self.step, op, self.case.kind.short(), self.case.a, self.case.b, self.case.w, self.case.prefill)
    }

    /// (lengths of the resident lists, adaptation target / quota) for the victim-list rule
    fn shape(&self) -> (usize, usize, usize) {
        match &self.c {
            BigC::Seg(c) => (c.probationary_len(), c.protected_len(), 0),
            BigC::TwoQ(c) => (c.recent_len(), c.frequent_len(), c.verif_recent_quota()),
            BigC::Arc(c) => (c.recent_len(), c.frequent_len(), c.partition()),
            _ => (0, 0, 0),
        }
    }

    fn do_put(&mut self, k: u64, tok: u32, check: bool) -> Result<(), Violation> {
        let p = self.prop;
        let (len0, cap) = (each!(&self.c, c => c.len()), each!(&self.c, c => c.cap()));
        let was_known = self.shadow.contains_key(&k);
        let never_put = k + 1 == self.next && !was_known;
        let shape0 = self.shape();
        // is the key a ghost right now? (0 = no, 1 = 2Q ghost / ARC recent ghost, 2 = ARC frequent ghost)
        let ghost0: u8 = match &self.c {
            BigC::TwoQ(c) => c.verif_ghost().contains(&k) as u8,
            BigC::Arc(c) => {
                if c.verif_recent_evict().contains(&k) {
                    1
                } else if c.verif_frequent_evict().contains(&k) {
                    2
                } else {
                    0
                }
            }
            _ => 0,
        };
        let r = each!(&mut self.c, c => c.put(k, TVal::new(tok)));
        let (text, ev, upd) = pr(r);
        if check {
            self.trace.push(text.clone());
        }
        let what = self.what(&format!("put({k}) -> {text}"));
        let handed_back = ev.map(|e| e.0 == k && e.1 == tok).unwrap_or(false);
        if let Some((ek, evv)) = ev {
            if !handed_back {
                match self.shadow.remove(&ek) {
                    Some(sv) if sv == evv => {}
                    other => {
                        if p == BigProp::C02 {
                            return Err(vio(p, self.step, "evicted-value", format!("{what}: the evicted pair does not carry the value last stored for its key ({:?})", other)));
                        }
                    }
                }
            }
        }
        if let Some(u) = upd {
            if p == BigProp::C02 && self.shadow.get(&k) != Some(&u) {
                return Err(vio(p, self.step, "update-value", format!("{what}: the old value is not the one last stored for the key ({:?})", self.shadow.get(&k))));
            }
        }
        if !handed_back {
            self.shadow.insert(k, tok);
        }
        if let Some(m) = self.lru.as_mut() {
            let (mt, _) = m.put(k, tok);
            if p == BigProp::C06 && check && mt != text {
                return Err(vio(p, self.step, "lru-result", format!("{what}: the reference LRU says {mt}")));
            }
        }
        let len1 = each!(&self.c, c => c.len());
        // which list gives up the victim when a never-seen key arrives at a full cache (the part
        // of the policy that needs no history): C07 / C08 / C09 at scale
        if check && never_put && len0 == cap && matches!(p, BigProp::C07 | BigProp::C08 | BigProp::C09) {
            let (r0, f0, t) = shape0;
            let (r1, f1, _) = self.shape();
            let bad = match (&self.c, p) {
                // a new key enters the probationary segment; the protected one is untouched
                (BigC::Seg(_), BigProp::C07) => f1 != f0,
                // 2Q: from the recent queue if it is at or over its quota, else from the frequent one
                (BigC::TwoQ(_), BigProp::C08) => {
                    if r0 > 0 && (r0 >= t || f0 == 0) {
                        f1 != f0 || r1 != r0
                    } else {
                        f1 + 1 != f0 || r1 != r0 + 1
                    }
                }
                // ARC: from the recent list if it is longer than p, else from the frequent list
                (BigC::Arc(_), BigProp::C09) => {
                    if r0 > 0 && (r0 > t || f0 == 0) {
                        f1 != f0 || r1 != r0
                    } else {
                        f1 + 1 != f0 || r1 != r0 + 1
                    }
                }
                _ => false,
            };
            if bad {
                return Err(vio(p, self.step, "victim-list", format!("{what}: a never-seen key arrived at the full cache with (first list, second list, quota / p) = ({r0}, {f0}, {t}); afterwards the lists hold ({r1}, {f1}): the victim came from the wrong list")));
            }
        }
        // ... and when a ghost key is put back into a full cache (it goes to the second list)
        if check && ghost0 != 0 && len0 == cap && matches!(p, BigProp::C08 | BigProp::C09) {
            let (r0, f0, _) = shape0;
            let (r1, f1, t1) = self.shape();
            // 2Q: the recent queue gives the victim if it is over its quota; ARC: the recent list
            // if it is longer than the (already adapted) p, or equal to it on a frequent-ghost hit
            let from_first = match &self.c {
                BigC::TwoQ(_) => r0 > 0 && (r0 > t1 || f0 == 0),
                _ => r0 > 0 && (r0 > t1 || (ghost0 == 2 && r0 == t1) || f0 == 0),
            };
            let want = if from_first { (r0 - 1, f0 + 1) } else { (r0, f0) };
            if (r1, f1) != want {
                return Err(vio(p, self.step, "victim-list-ghost-hit", format!("{what}: the key was a ghost (list {ghost0}) and the cache full with (first list, second list) = ({r0}, {f0}), quota / adapted p = {t1}; afterwards the lists hold ({r1}, {f1}), expected {:?}: the victim came from the wrong list", want)));
            }
        }
        if p == BigProp::C01 && check {
            if len1 > cap {
                return Err(vio(p, self.step, "len-gt-cap", format!("{what}: len() {len1} > cap() {cap}")));
            }
            let room_rule = matches!(self.c, BigC::Lru(_) | BigC::TwoQ(_) | BigC::Arc(_));
            if room_rule && !was_known && len0 < cap && (ev.is_some() || len1 != len0 + 1) {
                return Err(vio(p, self.step, "evicts-with-room", format!("{what}: a brand-new key was put while len() {len0} < cap() {cap}; nothing may leave and len() must grow by one (now {len1})")));
            }
        }
        if p == BigProp::C02 && check && !handed_back && !each!(&self.c, c => c.contains(&k)) && !matches!(self.c, BigC::Wtl(_)) {
            return Err(vio(p, self.step, "put-not-resident", format!("{what}: the key is not resident right after its own put")));
        }
        Ok(())
    }

    fn probe(&mut self, k: u64, what: &str) -> Result<(), Violation> {
        let p = self.prop;
        if p != BigProp::C02 {
            // (the C13 twin must not contain read-only calls of its own in the plain run)
            return Ok(());
        }
        let c1 = each!(&self.c, c => c.contains(&k));
        let pk = each!(&self.c, c => c.peek(&k).map(|v| v.read()));
        let pm = each!(&mut self.c, c => c.peek_mut(&k).map(|v| v.read()));
        if p == BigProp::C02 {
            if c1 != pk.is_some() || pk != pm {
                return Err(vio(p, self.step, "lookups-disagree", format!("{what}: contains({k}) = {c1}, peek = {:?}, peek_mut = {:?}", pk, pm)));
            }
            if let Some(v) = pk {
                if self.shadow.get(&k) != Some(&v) {
                    return Err(vio(p, self.step, "stale-value", format!("{what}: peek({k}) = {v}, the value last stored is {:?} (None = the key was reported evicted / removed / purged)", self.shadow.get(&k))));
                }
            }
        }
        Ok(())
    }

    fn checkpoint(&mut self, what: &str) -> Result<(), Violation> {
        let p = self.prop;
        match p {
            BigProp::C01 => {
                let (len, cap) = (each!(&self.c, c => c.len()), each!(&self.c, c => c.cap()));
                if len > cap || each!(&self.c, c => c.is_empty()) != (self.c.retained() == 0) {
                    return Err(vio(p, self.step, "len", format!("{what}: len() {len}, cap() {cap}, is_empty() {}, retained incl. ghosts {}", each!(&self.c, c => c.is_empty()), self.c.retained())));
                }
                if self.c.reports_all() && len != self.shadow.len() {
                    return Err(vio(p, self.step, "len-accounting", format!("{what}: len() = {len}, but {} keys were put and not reported evicted / removed since", self.shadow.len())));
                }
                if !self.c.reports_all() && self.c.retained() > self.shadow.len() {
                    return Err(vio(p, self.step, "len-accounting", format!("{what}: {} entries retained, but only {} keys can be retained", self.c.retained(), self.shadow.len())));
                }
            }
            BigProp::C03 => {
                if let Err(e) = self.c.audit() {
                    return Err(vio(p, self.step, "audit", format!("{what}: structural audit failed: {e}")));
                }
                let b = take_bad();
                if !b.is_empty() {
                    return Err(vio(p, self.step, "dead-object", format!("{what}: {}", b.join("; "))));
                }
            }
            BigProp::C04 => {
                let (live, want) = (live_ids().len(), self.c.retained());
                if live != want {
                    return Err(vio(p, self.step, "ledger", format!("{what}: {live} value objects are live, the cache retains {want} entries")));
                }
            }
            BigProp::C06 => {
                if let (Some(m), BigC::Lru(c)) = (self.lru.as_ref(), &self.c) {
                    let real: Vec<(u64, u32)> = c.iter().map(|(k, v)| (*k, v.read())).collect();
                    let want = m.order_mru_first();
                    if real != want {
                        let i = real.iter().zip(want.iter()).position(|(a, b)| a != b).unwrap_or(real.len().min(want.len()));
                        return Err(vio(p, self.step, "lru-order", format!("{what}: the recency order differs from the reference LRU: {} vs {} entries, first difference at position {i} from the MRU end: {:?} vs {:?}", real.len(), want.len(), real.get(i), want.get(i))));
                    }
                    if c.cap() != m.cap {
                        return Err(vio(p, self.step, "lru-cap", format!("{what}: cap() = {}, reference {}", c.cap(), m.cap)));
                    }
                }
            }
            _ => {}
        }
        let _ = take_bad();
        Ok(())
    }

    fn apply(&mut self, op: &BOp) -> Result<(), Violation> {
        let p = self.prop;
        let tok = crate::ops::token(self.step, 0);
        match op {
            BOp::Put(s) => {
                let k = self.key_of(*s);
                self.do_put(k, tok, true)?;
            }
            BOp::PutNew(n) => {
                for j in 0..*n {
                    let k = self.key_of(Sel::New);
                    self.do_put(k, crate::ops::token(self.step, j as usize), j + 1 == *n)?;
                }
            }
            BOp::Get(s) | BOp::GetMut(s) | BOp::Peek(s) | BOp::PeekMut(s) | BOp::Contains(s) => {
                let k = self.key_of(*s);
                let r: Option<u32> = match op {
                    BOp::Get(_) => each!(&mut self.c, c => c.get(&k).map(|v| v.read())),
                    BOp::GetMut(_) => each!(&mut self.c, c => c.get_mut(&k).map(|v| { let o = v.read(); v.write(tok); o })),
                    BOp::Peek(_) => each!(&self.c, c => c.peek(&k).map(|v| v.read())),
                    BOp::PeekMut(_) => each!(&mut self.c, c => c.peek_mut(&k).map(|v| { let o = v.read(); v.write(tok); o })),
                    _ => each!(&self.c, c => c.contains(&k)).then_some(0),
                };
                self.trace.push(format!("{:?}", r.is_some()));
                let what = self.what(&format!("{:?} of key {k} -> {:?}", op, r));
                if let (Some(v), false) = (r, matches!(op, BOp::Contains(_))) {
                    if p == BigProp::C02 && self.shadow.get(&k) != Some(&v) {
                        return Err(vio(p, self.step, "stale-value", format!("{what}: the value last stored for the key is {:?} (None = it was reported evicted / removed / purged)", self.shadow.get(&k))));
                    }
                }
                if r.is_some() && matches!(op, BOp::GetMut(_) | BOp::PeekMut(_)) {
                    self.shadow.insert(k, tok);
                }
                if let Some(m) = self.lru.as_mut() {
                    let mr = m.by_key.get(&k).map(|x| x.1);
                    if matches!(op, BOp::Get(_) | BOp::GetMut(_)) {
                        m.touch(k);
                    }
                    if mr.is_some() && matches!(op, BOp::GetMut(_) | BOp::PeekMut(_)) {
                        m.by_key.get_mut(&k).unwrap().1 = tok;
                    }
                    if p == BigProp::C06 && mr.is_some() != r.is_some() {
                        return Err(vio(p, self.step, "lru-result", format!("{what}: the reference LRU says {:?}", mr)));
                    }
                }
                self.probe(k, &what)?;
            }
            BOp::Remove(s) => {
                let k = self.key_of(*s);
                let r = each!(&mut self.c, c => c.remove(&k).map(|v| v.read()));
                self.trace.push(format!("{:?}", r));
                let what = self.what(&format!("remove({k}) -> {:?}", r));
                // 2Q / ARC: a key that was not resident may be a ghost, and whether remove() forgets a
                // ghost is not specified: it stays in the set of keys that may still be retained
                let sh = if r.is_some() || self.c.reports_all() { self.shadow.remove(&k) } else { self.shadow.get(&k).copied() };
                if p == BigProp::C02 {
                    if let Some(v) = r {
                        if sh != Some(v) {
                            return Err(vio(p, self.step, "remove-value", format!("{what}: the value last stored for the key is {:?}", sh)));
                        }
                    }
                    if each!(&self.c, c => c.contains(&k)) {
                        return Err(vio(p, self.step, "removed-still-resident", format!("{what}: the key is still reported resident")));
                    }
                }
                if let Some(m) = self.lru.as_mut() {
                    let mr = m.remove(k);
                    if p == BigProp::C06 && mr != r {
                        return Err(vio(p, self.step, "lru-result", format!("{what}: the reference LRU says {:?}", mr)));
                    }
                }
            }
            BOp::Purge => {
                each!(&mut self.c, c => c.purge());
                let what = self.what("purge()");
                self.trace.push("purge".into());
                let probes: Vec<u64> = (0..4u64).map(|j| self.next.saturating_sub(1 + j)).chain([0, self.next / 2]).collect();
                self.shadow.clear();
                if let Some(m) = self.lru.as_mut() {
                    m.by_key.clear();
                    m.by_stamp.clear();
                }
                let len = each!(&self.c, c => c.len());
                if p == BigProp::C01 && (len != 0 || !each!(&self.c, c => c.is_empty()) || self.c.retained() != 0) {
                    return Err(vio(p, self.step, "purge-len", format!("{what}: afterwards len() = {len}, is_empty() = {}, retained incl. ghosts {}", each!(&self.c, c => c.is_empty()), self.c.retained())));
                }
                if p == BigProp::C02 {
                    for k in probes {
                        if each!(&self.c, c => c.contains(&k)) || each!(&self.c, c => c.peek(&k).is_some()) {
                            return Err(vio(p, self.step, "purged-still-resident", format!("{what}: key {k} is still reported resident")));
                        }
                    }
                }
                if p == BigProp::C04 {
                    let live = live_ids().len();
                    if live != 0 {
                        return Err(vio(p, self.step, "purge-ledger", format!("{what}: {live} value object(s) are still live after purge")));
                    }
                }
            }
            BOp::RemoveLru | BOp::GetLru => {
                if let BigC::Lru(c) = &mut self.c {
                    let r: Option<(u64, u32)> = if matches!(op, BOp::RemoveLru) { c.remove_lru().map(|(k, v)| (k, v.read())) } else { c.get_lru().map(|(k, v)| (*k, v.read())) };
                    self.trace.push(format!("{:?}", r));
                    let what = format!("step {} {:?} -> {:?} on lru (a = {}, prefill {})", self.step, op, r, self.case.a, self.case.prefill);
                    if let (Some((k, v)), true) = (r, matches!(op, BOp::RemoveLru)) {
                        let sh = self.shadow.remove(&k);
                        if p == BigProp::C02 && sh != Some(v) {
                            return Err(vio(p, self.step, "remove-value", format!("{what}: the value last stored for the key is {:?}", sh)));
                        }
                    }
                    if let Some(m) = self.lru.as_mut() {
                        let mr = if matches!(op, BOp::RemoveLru) {
                            m.pop_lru()
                        } else {
                            let x = m.by_stamp.iter().next().map(|(_, k)| *k);
                            if let Some(k) = x {
                                m.touch(k);
                            }
                            x.map(|k| (k, m.by_key[&k].1))
                        };
                        if p == BigProp::C06 && mr != r {
                            return Err(vio(p, self.step, "lru-result", format!("{what}: the reference LRU says {:?}", mr)));
                        }
                    }
                }
            }
            BOp::Resize { to, rel } => {
                if let BigC::Lru(c) = &mut self.c {
                    let len0 = c.len();
                    let target = if *rel { len0.saturating_sub(*to as usize) } else { *to as usize };
                    let n = c.resize(target);
                    self.trace.push(format!("resize {n}"));
                    let what = format!("step {} resize({target}) -> {n} on lru (a = {}, prefill {}, len before {len0})", self.step, self.case.a, self.case.prefill);
                    let (len1, cap1) = (c.len(), c.cap());
                    let want = len0.saturating_sub(target);
                    if let Some(m) = self.lru.as_mut() {
                        m.cap = target;
                        for _ in 0..want {
                            if let Some((k, _)) = m.pop_lru() {
                                self.shadow.remove(&k);
                            }
                        }
                    }
                    if matches!(p, BigProp::C01 | BigProp::C06) && (n as usize != want || len1 != len0 - want || cap1 != target) {
                        return Err(vio(p, self.step, "resize", format!("{what}: must discard exactly max(0, len - n) = {want} entries and enforce n: afterwards len() = {len1}, cap() = {cap1}")));
                    }
                }
            }
        }
        Ok(())
    }

    fn reads(&mut self) {
        // C13 twin: read-only calls that must not change anything
        let ks = [0u64, self.next / 2, self.next.saturating_sub(1), self.next.saturating_sub(3), self.next + 7];
        for k in ks {
            let _ = each!(&self.c, c => c.contains(&k));
            let _ = each!(&self.c, c => c.peek(&k).map(|v| v.read()));
            let _ = each!(&mut self.c, c => c.peek_mut(&k).map(|v| v.read()));
        }
        let _ = each!(&self.c, c => (c.len(), c.cap(), c.is_empty()));
        if let BigC::Lru(c) = &mut self.c {
            let _ = c.peek_lru().map(|(k, v)| (*k, v.read()));
            let _ = c.peek_mru().map(|(k, v)| (*k, v.read()));
            let _ = c.peek_lru_mut().map(|(k, v)| (*k, v.read()));
            let _ = c.iter().take(3).count();
        }
    }
}

fn run_once(case: &BigCase, prop: BigProp, with_reads: bool) -> Result<(Vec<String>, Vec<u64>), Violation> {
    let c = match BigC::build(case) {
        Ok(c) => c,
        Err(_) => return Ok((vec![], vec![])),
    };
    let lru = if case.kind == Kind::Lru && matches!(prop, BigProp::C06 | BigProp::C01 | BigProp::C02 | BigProp::C13) { Some(LruRef { cap: case.a as usize, ..Default::default() }) } else { None };
    let mut r = Run { case, prop, c, shadow: HashMap::new(), next: 0, lru, trace: vec![], with_reads, step: 0 };
    for k in 0..case.prefill as u64 {
        r.next = k + 1;
        r.do_put(k, 64 + (k as u32 & 63), false)?;
        if with_reads && k % 4099 == 0 {
            r.reads();
        }
    }
    r.checkpoint(&format!("after the prefill of {} sequential puts on {} (a = {}, b = {}, w = {})", case.prefill, case.kind.short(), case.a, case.b, case.w))?;
    for (i, op) in case.ops.iter().enumerate() {
        r.step = i + 1;
        r.apply(op)?;
        if with_reads {
            r.reads();
        }
        if i % 8 == 7 || i + 1 == case.ops.len() || matches!(op, BOp::Purge | BOp::Resize { .. } | BOp::PutNew(_)) {
            let w = r.what(&format!("{:?}", op));
            r.checkpoint(&w)?;
        }
    }
    // final observable state for the twin comparison
    let mut fin: Vec<u64> = vec![each!(&r.c, c => c.len()) as u64, r.c.retained() as u64];
    if let BigC::Lru(c) = &r.c {
        fin.extend(c.keys().take(2000).copied());
        fin.extend(c.keys_lru().take(2000).copied());
    }
    for k in [0u64, 1, r.next / 2, r.next.saturating_sub(1), r.next.saturating_sub(2)] {
        fin.push(each!(&r.c, c => c.contains(&k)) as u64);
    }
    if let BigC::Wtl(c) = &r.c {
        // the frequency estimator is part of the state read-only calls must not touch
        fin.push(crate::ops::fnv64(format!("{:?}", c.verif_estimator().verif_dump()).as_bytes()));
        fin.extend(c.verif_window().keys().take(500).copied());
        fin.extend(c.verif_main().verif_probationary().keys_lru().take(500).copied());
        fin.extend(c.verif_main().verif_protected().keys().take(500).copied());
    }
    if let BigC::Arc(c) = &r.c {
        fin.push(c.partition() as u64);
        fin.extend(c.recent_keys().take(300).copied());
        fin.extend(c.frequent_keys().take(300).copied());
        fin.extend(c.recent_evict_keys().take(300).copied());
        fin.extend(c.frequent_evict_keys().take(300).copied());
    }
    if let BigC::TwoQ(c) = &r.c {
        fin.extend(c.recent_keys().take(300).copied());
        fin.extend(c.frequent_keys().take(300).copied());
        fin.extend(c.ghost_keys().take(300).copied());
    }
    if let BigC::Seg(c) = &r.c {
        fin.extend(c.verif_probationary().keys().take(300).copied());
        fin.extend(c.verif_protected().keys().take(300).copied());
    }
    let trace = std::mem::take(&mut r.trace);
    drop(r);
    if prop == BigProp::C04 {
        let live = live_ids().len();
        if live != 0 {
            return Err(vio(prop, case.ops.len(), "leak", format!("after the drop of the {} cache (a = {}, b = {}, w = {}, prefill {}) {live} value object(s) are still live", case.kind.short(), case.a, case.b, case.w, case.prefill)));
        }
    }
    if prop == BigProp::C03 {
        let b = take_bad();
        if !b.is_empty() {
            return Err(vio(prop, case.ops.len(), "dead-object", format!("while dropping: {}", b.join("; "))));
        }
    }
    Ok((trace, fin))
}

pub fn run_big(case: &BigCase, prop: BigProp) -> CaseReport {
    reset_case();
    let _ = take_last_panic();
    let mut rep = CaseReport::default();
    rep.steps = case.ops.len();
    // the no_std sketch of W-TinyLFU is seeded per instance: the twin comparison (C13) needs the
    // pinned seed of the std build
    if prop == BigProp::C13 && case.kind == Kind::Wtl && !cfg!(feature = "std") {
        return rep;
    }
    let r = catch_unwind(AssertUnwindSafe(|| -> Result<(), Violation> {
        let a = run_once(case, prop, false)?;
        if prop == BigProp::C13 {
            reset_case();
            let b = run_once(case, prop, true)?;
            if a != b {
                let i = a.0.iter().zip(b.0.iter()).position(|(x, y)| x != y);
                return Err(vio(prop, i.unwrap_or(case.ops.len()), "twin", format!("the same history on {} (a = {}, b = {}, w = {}, prefill {}) with read-only calls (contains, peek, peek_mut without a write, len/cap/is_empty, peek_lru/peek_mru, a partial iteration) inserted after every step gives different results: first differing result at index {:?} ({:?} vs {:?}), final observations differ: {}", case.kind.short(), case.a, case.b, case.w, case.prefill, i, i.map(|i| &a.0[i]), i.map(|i| &b.0[i]), a.1 != b.1)));
            }
        }
        Ok(())
    }));
    match r {
        Ok(Ok(())) => {}
        Ok(Err(v)) => rep.violation = Some(v),
        Err(_) => rep.aborted_by_panic = Some(take_last_panic().unwrap_or_default()),
    }
    let total = match case.kind {
        Kind::Seg => case.a + case.b,
        Kind::Wtl => case.a + case.b + case.w,
        _ => case.a,
    };
    rep.nontrivial = case.prefill >= total && total >= 1024;
    rep
}

// ------------------------------------------------------------------ C09: the adaptation arithmetic over a grid

/// Drives an ARC cache to chosen ghost-list lengths (|recent ghosts| = x, |frequent ghosts| = y)
/// by feedback (scan, ghost hits to raise p, scan again, then `remove` of ghost keys to trim),
/// then performs one ghost hit and checks the statement's formula directly:
/// a recent-ghost hit raises p by max(1, y / x) capped at the size, a frequent-ghost hit lowers
/// it by max(1, x / y) floored at 0. Returns Ok(reached) or the violation text.
fn arc_pair(n: usize, x: usize, y: usize, hit_recent: bool) -> Result<bool, String> {
    let mut c: AdaptiveCache<u64, u32> = match AdaptiveCache::new(n) {
        Ok(c) => c,
        Err(_) => return Ok(false),
    };
    let mut next: u64 = 0;
    let mut fresh = |c: &mut AdaptiveCache<u64, u32>| {
        c.put(next, 0);
        next += 1;
    };
    for _ in 0..2 * n {
        fresh(&mut c);
    }
    // recent-ghost hits: p climbs to ~0.7 n
    for _ in 0..(7 * n / 10) {
        let k = match c.recent_evict_keys().next().copied() {
            Some(k) => k,
            None => break,
        };
        c.put(k, 1);
    }
    // scan until the frequent ghost list is long enough
    let mut guard = 0;
    while c.frequent_evict_len() < y && guard < 3 * n {
        fresh(&mut c);
        guard += 1;
    }
    // trim both ghost lists to the target lengths (remove() of a ghost key forgets it)
    // (an implementation whose remove() leaves ghosts alone is legitimate: then the pair is
    // simply not reached)
    while c.recent_evict_len() > x {
        let before = c.recent_evict_len();
        let k = *c.recent_evict_keys_lru().next().unwrap();
        c.remove(&k);
        if c.recent_evict_len() >= before {
            return Ok(false);
        }
    }
    while c.frequent_evict_len() > y {
        let before = c.frequent_evict_len();
        let k = *c.frequent_evict_keys_lru().next().unwrap();
        c.remove(&k);
        if c.frequent_evict_len() >= before {
            return Ok(false);
        }
    }
    if c.recent_evict_len() != x || c.frequent_evict_len() != y || x == 0 || y == 0 {
        return Ok(false);
    }
    let p0 = c.partition();
    if hit_recent {
        let k = *c.recent_evict_keys().next().unwrap();
        c.put(k, 2);
        let want = (p0 + (y / x).max(1)).min(n);
        if c.partition() != want {
            return Err(format!("ARC size {n}: with {x} recent ghosts, {y} frequent ghosts and p = {p0}, a put that hits the recent ghost list must raise p by max(1, {y} / {x}) = {} (capped at {n}) to {want}; p is now {}", (y / x).max(1), c.partition()));
        }
    } else {
        let k = *c.frequent_evict_keys().next().unwrap();
        c.put(k, 2);
        let want = p0.saturating_sub((x / y).max(1));
        if c.partition() != want {
            return Err(format!("ARC size {n}: with {x} recent ghosts, {y} frequent ghosts and p = {p0}, a put that hits the frequent ghost list must lower p by max(1, {x} / {y}) = {} (floored at 0) to {want}; p is now {}", (x / y).max(1), c.partition()));
        }
    }
    Ok(true)
}

/// the floor and the cap of the adaptation target at several scales: with every entry in the
/// frequent list a frequent-ghost hit at p = 0 must leave p at 0; after `n` recent-ghost hits p
/// sits at the size and a further recent-ghost hit must leave it there
fn arc_bounds(n: usize) -> Result<bool, String> {
    let mut c: AdaptiveCache<u64, u32> = match AdaptiveCache::new(n) {
        Ok(c) => c,
        Err(_) => return Ok(false),
    };
    for k in 0..n as u64 {
        c.put(k, 0);
    }
    for k in 0..n as u64 {
        c.get(&k);
    }
    // every entry is frequent now: a never-seen key pushes the least recent one to the frequent ghosts
    c.put(n as u64, 0);
    let ghost = match c.frequent_evict_keys().next().copied() {
        Some(g) => g,
        None => return Ok(false),
    };
    if c.partition() != 0 {
        return Err(format!("ARC size {n}: p = {} although no recent-ghost hit has happened yet", c.partition()));
    }
    c.put(ghost, 1);
    if c.partition() != 0 {
        return Err(format!("ARC size {n}: a frequent-ghost hit at p = 0 must leave p at 0 (floored), p is now {}", c.partition()));
    }
    // the cap: fresh cache, scan twice, then more recent-ghost hits than the size
    let mut c: AdaptiveCache<u64, u32> = AdaptiveCache::new(n).map_err(|e| e.to_string())?;
    let mut next = 0u64;
    for _ in 0..2 * n {
        c.put(next, 0);
        next += 1;
    }
    let mut hits = 0;
    while c.partition() < n && hits < 4 * n {
        match c.recent_evict_keys().next().copied() {
            Some(k) => {
                c.put(k, 1);
            }
            None => {
                c.put(next, 0);
                next += 1;
            }
        }
        hits += 1;
    }
    if c.partition() != n {
        return Ok(false);
    }
    // refill the recent ghosts and hit once more
    for _ in 0..3 {
        c.put(next, 0);
        next += 1;
    }
    if let Some(k) = c.recent_evict_keys().next().copied() {
        c.put(k, 2);
        if c.partition() != n {
            return Err(format!("ARC size {n}: p was at the size and a recent-ghost hit must leave it there (capped), p is now {}", c.partition()));
        }
    }
    Ok(true)
}

/// the grid: every (x, y) with 1 <= x, y <= `max` in the thorough tier; in the quick tier all
/// exact multiples (where an inexact division first goes wrong) with their neighbours, plus a
/// diagonal sample. Returns (pairs reached, pairs attempted, first violation).
pub fn arc_adaptation_grid(thorough: bool, workers: usize) -> (u64, u64, Option<String>) {
    let max = if thorough { 240usize } else { 130 };
    let n = 2 * max + max / 2 + 8;
    let mut pairs: Vec<(usize, usize)> = vec![];
    for x in 1..=max {
        for y in 1..=max {
            let mult = (y % x == 0 && y / x >= 2) || (x % y == 0 && x / y >= 2);
            let near = (y + 1) % x == 0 || (y % x == 1 && y > x) || (x + 1) % y == 0 || (x % y == 1 && x > y);
            if thorough || mult || (near && (x + y) % 3 == 0) || (x * 31 + y * 17) % 97 == 0 {
                pairs.push((x, y));
            }
        }
    }
    // lopsided pairs: a step of several hundred (one ghost list hundreds of times longer)
    let mut lopsided: Vec<(usize, usize, usize)> = vec![];
    for &long in &[255usize, 256, 257, 300, 511, 512, 513, 700] {
        for &short in &[1usize, 2, 3] {
            lopsided.push((3 * long + 16, short, long));
            lopsided.push((3 * long + 16, long, short));
        }
    }
    let chunks: Vec<Vec<(usize, usize)>> = (0..workers.max(1)).map(|w| pairs.iter().copied().enumerate().filter(|(i, _)| i % workers.max(1) == w).map(|(_, p)| p).collect()).collect();
    let results: Vec<(u64, u64, Option<String>)> = std::thread::scope(|sc| {
        let hs: Vec<_> = chunks
            .iter()
            .map(|chunk| {
                sc.spawn(move || {
                    crate::inst::thread_init();
                    let (mut reached, mut tried, mut bad) = (0u64, 0u64, None);
                    for &(x, y) in chunk {
                        for dir in [true, false] {
                            tried += 1;
                            match catch_unwind(AssertUnwindSafe(|| arc_pair(n, x, y, dir))) {
                                Ok(Ok(true)) => reached += 1,
                                Ok(Ok(false)) => {}
                                Ok(Err(e)) => {
                                    if bad.is_none() {
                                        bad = Some(e);
                                    }
                                }
                                Err(_) => {
                                    let _ = take_last_panic();
                                }
                            }
                        }
                        if bad.is_some() {
                            break;
                        }
                    }
                    (reached, tried, bad)
                })
            })
            .collect();
        hs.into_iter().map(|h| h.join().expect("grid worker died")).collect()
    });
    let mut out = (0u64, 0u64, None);
    for (r, t, b) in results {
        out.0 += r;
        out.1 += t;
        if out.2.is_none() {
            out.2 = b;
        }
    }
    for (nn, x, y) in lopsided {
        for dir in [true, false] {
            out.1 += 1;
            match catch_unwind(AssertUnwindSafe(|| arc_pair(nn, x, y, dir))) {
                Ok(Ok(true)) => out.0 += 1,
                Ok(Err(e)) if out.2.is_none() => out.2 = Some(e),
                _ => {}
            }
        }
    }
    for nn in [1usize, 2, 5, 100, 999, 1000, 1001, 2500, 5000] {
        out.1 += 1;
        match catch_unwind(AssertUnwindSafe(|| arc_bounds(nn))) {
            Ok(Ok(true)) => out.0 += 1,
            Ok(Err(e)) if out.2.is_none() => out.2 = Some(e),
            _ => {}
        }
    }
    out
}

// ------------------------------------------------------------------ C08: the victim rule around the quota, at several scales

/// Drives a 2Q cache to `recent_len == quota + d` with a full cache and a non-empty ghost list,
/// then checks which queue gives up the victim for (a) a put of a ghost key and (b) a put of a
/// never-seen key, against the statement: recent queue if over its quota (at quota also counts
/// for a brand-new key), else the frequent queue, falling back to whichever is non-empty.
fn twoq_case(size: usize, rr: f64, d: i64, ghost_put: bool) -> Result<bool, String> {
    let mut c: TwoQueueCache<u64, u32> = match TwoQueueCache::with_2q_parameters(size, rr, 0.5) {
        Ok(c) => c,
        Err(_) => return Ok(false),
    };
    let quota = c.verif_recent_quota() as i64;
    let target = quota + d;
    if target < 0 || target as usize > size {
        return Ok(false);
    }
    let target = target as usize;
    let mut next = 0u64;
    for _ in 0..size {
        c.put(next, 0);
        next += 1;
    }
    // promote the oldest keys until the recent queue has `target` entries (+1: the scan below
    // evicts one and adds one)
    let mut k = 0u64;
    while c.recent_len() > target && k < next {
        c.get(&k);
        k += 1;
    }
    if c.recent_len() != target || c.len() != size {
        return Ok(false);
    }
    // make ghosts: new keys at a full cache (each evicts one entry and enters the recent queue)
    for _ in 0..3 {
        c.put(next, 0);
        next += 1;
    }
    // restore the recent length (the scan may have changed it by evicting from the frequent queue)
    let mut guard = 0;
    while c.recent_len() > target && guard < 8 {
        if let Some(k) = c.recent_keys_lru().next().copied() {
            c.get(&k);
        }
        guard += 1;
    }
    if c.recent_len() != target || c.len() != size || c.ghost_len() == 0 {
        return Ok(false);
    }
    let (r0, f0) = (c.recent_len(), c.frequent_len());
    let key = if ghost_put { *c.ghost_keys().next().unwrap() } else { next };
    c.put(key, 1);
    let (r1, f1) = (c.recent_len(), c.frequent_len());
    let over = if ghost_put { (r0 as i64) > quota } else { (r0 as i64) >= quota };
    let from_recent = r0 > 0 && (over || f0 == 0);
    // the key itself goes to the frequent queue (ghost) or to the recent queue (never seen)
    let want = match (from_recent, ghost_put) {
        (true, true) => (r0 - 1, f0 + 1),
        (false, true) => (r0, f0),
        (true, false) => (r0, f0),
        (false, false) => (r0 + 1, f0 - 1),
    };
    if (r1, f1) != want {
        return Err(format!(
            "2Q size {size}, recent ratio {rr} (quota {quota}): full cache with {r0} recent and {f0} frequent entries; a put of a {} key must take the victim from the {} queue: expected ({}, {}) afterwards, found ({r1}, {f1})",
            if ghost_put { "ghost" } else { "never-seen" },
            if from_recent { "recent" } else { "frequent" },
            want.0,
            want.1
        ));
    }
    Ok(true)
}

pub fn twoq_victim_grid(thorough: bool) -> (u64, u64, Option<String>) {
    let mut sizes: Vec<(usize, f64)> = vec![(2, 0.5), (3, 0.34), (4, 0.25), (8, 0.25), (8, 0.0), (8, 1.0), (9, 0.5), (64, 0.25), (100, 0.29), (1024, 0.25), (1025, 0.25), (4096, 0.25), (4100, 0.5), (5000, 0.3)];
    if thorough {
        sizes.extend([(65_536usize, 0.25), (70_000, 0.5), (262_144, 0.25), (300_000, 0.9)]);
    } else {
        sizes.push((66_000, 0.25));
    }
    let (mut reached, mut tried, mut bad) = (0u64, 0u64, None);
    for (size, rr) in sizes {
        for d in -2i64..=3 {
            for ghost_put in [true, false] {
                tried += 1;
                match catch_unwind(AssertUnwindSafe(|| twoq_case(size, rr, d, ghost_put))) {
                    Ok(Ok(true)) => reached += 1,
                    Ok(Ok(false)) => {}
                    Ok(Err(e)) => {
                        if bad.is_none() {
                            bad = Some(e);
                        }
                    }
                    Err(_) => {
                        let _ = take_last_panic();
                    }
                }
            }
        }
    }
    (reached, tried, bad)
}
