//! E7 — component sequences: TinyLFU (C11, clone part of C16, totality part of C05) and
//! SampledLFU (C20, totality part of C05).

use crate::inst::*;
use crate::interp::{panic_class, CaseReport, Violation, MT};
use crate::model::Ev;
use crate::ops::{HSpec, KhSpec};
use crate::sut::{mk_hs, mk_khs};
use caches::lfu::{SampledLFU, TinyLFU, TinyLFUBuilder};
use proptest::prelude::*;
use proptest::strategy::BoxedStrategy;
use serde::{Deserialize, Serialize};
use std::collections::BTreeMap;
use std::panic::{catch_unwind, AssertUnwindSafe};

#[derive(Clone, Copy, Debug, PartialEq, Eq)]
pub enum E7Prop {
    C05,
    C11,
    C16,
    C20,
}

// ------------------------------------------------------------------------------ TinyLFU

#[derive(Clone, Debug, Serialize, Deserialize, PartialEq)]
pub enum TOp {
    Inc(u64),
    IncHashed(u64),
    IncKeys(Vec<u64>),
    IncHashedKeys(Vec<u64>),
    /// the same hash recorded n times in a row (drives counters to saturation)
    Burst(u64, u8),
    TryReset,
    Clear,
    /// query estimate / contains of a key and of a raw hash
    Probe(u64),
    /// lt/le/gt/ge/eq of two keys
    Cmp(u64, u64),
    Clone,
}

#[derive(Clone, Debug, Serialize, Deserialize)]
pub struct TCase {
    pub size: usize,
    pub samples: usize,
    pub fp: f64,
    pub kh: KhSpec,
    pub sketch_seed: Option<u64>,
    /// all key-based ops use this single key when set (exactness oracle)
    pub single: Option<u64>,
    pub ops: Vec<TOp>,
}

fn hash_value() -> BoxedStrategy<u64> {
    prop_oneof![
        10 => 0u64..6,
        1 => Just(0u64),
        1 => Just(u64::MAX),
        1 => Just(1u64 << 32),
        1 => Just(1u64 << 63),
        1 => Just(0xFFFF_FFFF_0000_0000u64),
        1 => Just(u64::MAX - 1),
        2 => any::<u64>(),
    ]
    .boxed()
}

pub fn tcase_strategy(thorough: bool) -> BoxedStrategy<TCase> {
    let size = if thorough { prop_oneof![6 => 1usize..=64, 1 => Just(4096usize), 1 => 65usize..=1024].boxed() } else { prop_oneof![12 => 1usize..=64, 1 => Just(4096usize)].boxed() };
    let samples = prop_oneof![4 => 1usize..=8, 4 => 9usize..=64, 3 => 65usize..=600];
    let fp = prop::sample::select(vec![1e-12f64, 1e-6, 0.01, 0.3, 0.5, 0.999]);
    let kh = prop::sample::select(vec![KhSpec::Default, KhSpec::Ident, KhSpec::Const, KhSpec::Fnv(9), KhSpec::Ident]);
    let maxops = if thorough { 300 } else { 120 };
    let op = prop_oneof![
        30 => hash_value().prop_map(TOp::Inc),
        20 => hash_value().prop_map(TOp::IncHashed),
        3 => prop::collection::vec(hash_value(), 0..5).prop_map(TOp::IncKeys),
        3 => prop::collection::vec(hash_value(), 0..5).prop_map(TOp::IncHashedKeys),
        6 => (prop_oneof![8 => 0u64..4, 1 => hash_value()], 2u8..24).prop_map(|(h, n)| TOp::Burst(h, n)),
        6 => Just(TOp::TryReset),
        1 => Just(TOp::Clear),
        8 => hash_value().prop_map(TOp::Probe),
        10 => (hash_value(), hash_value()).prop_map(|(a, b)| TOp::Cmp(a, b)),
        1 => Just(TOp::Clone),
    ];
    (size, samples, fp, kh, any::<u64>(), prop_oneof![7 => Just(None), 3 => hash_value().prop_map(Some)], prop::collection::vec(op, 0..=maxops))
        .prop_map(|(size, samples, fp, kh, seed, single, ops)| TCase { size, samples, fp, kh, sketch_seed: Some(seed), single, ops })
        .boxed()
}

fn build_tinylfu(c: &TCase) -> Result<TinyLFU<u64, KHS<u64>>, String> {
    #[cfg(feature = "std")]
    caches::lfu::verif_pin_sketch_seed(c.sketch_seed);
    // four builder call sequences (entry point, setter order, values set twice); which one is
    // a function of the case's sketch seed (any u64, independent of everything else)
    let kh = || mk_khs::<u64Key>(c.kh).into_u64();
    let r = match c.sketch_seed.unwrap_or(0) % 4 {
        0 => TinyLFUBuilder::<u64, KHS<u64>>::with_hasher(kh()).set_size(c.size).set_samples(c.samples).set_false_positive_ratio(c.fp).finalize(),
        1 => TinyLFUBuilder::<u64>::new(c.size, c.samples).set_false_positive_ratio(c.fp).set_key_hasher(kh()).finalize(),
        2 => TinyLFUBuilder::<u64>::new(c.samples + 3, c.size + 5).set_key_hasher(kh()).set_false_positive_ratio(0.5).set_samples(c.samples).set_false_positive_ratio(c.fp).set_size(c.size).finalize(),
        _ => TinyLFU::from_builder(TinyLFUBuilder::<u64>::default().set_false_positive_ratio(c.fp).set_samples(c.samples).set_key_hasher(kh()).set_size(c.size)),
    };
    #[cfg(feature = "std")]
    caches::lfu::verif_pin_sketch_seed(None);
    r.map_err(|e| e.to_string())
}

/// helper so `mk_khs` (generic over KeyLike) can be reused for plain u64 keys
#[allow(non_camel_case_types)]
pub type u64Key = crate::inst::TKey;
trait IntoU64 {
    fn into_u64(self) -> KHS<u64>;
}
impl IntoU64 for KHS<TKey> {
    fn into_u64(self) -> KHS<u64> {
        match self {
            KHS::Default(_) => KHS::Default(Default::default()),
            KHS::Ident => KHS::Ident,
            KHS::Const => KHS::Const,
            KHS::Fnv(s) => KHS::Fnv(s),
        }
    }
}

fn tv(prop: E7Prop, step: usize, class: &str, msg: String) -> Violation {
    let id = match prop {
        E7Prop::C05 => "C05",
        E7Prop::C11 => "C11",
        E7Prop::C16 => "C16",
        E7Prop::C20 => "C20",
    };
    Violation { prop: id, step, msg, sig: format!("tinylfu/-/{}", class) }
}

pub fn run_tinylfu(c: &TCase, prop: E7Prop) -> CaseReport {
    reset_case();
    let mut rep = CaseReport::default();
    // a third of the cases get byte buffers that are not word aligned (legal for align-1
    // allocations): the sketch rows and the doorkeeper must not depend on their address
    let seed = c.sketch_seed.unwrap_or(0);
    crate::alloc::set_misalign(if seed % 3 == 0 { 1 + (seed / 3 % 7) as u8 } else { 8 });
    let r = catch_unwind(AssertUnwindSafe(|| run_tinylfu_inner(c, prop, &mut rep)));
    crate::alloc::set_misalign(8);
    match r {
        Ok(Ok(())) => {}
        Ok(Err(v)) => rep.violation = Some(v),
        Err(_) => {
            let (loc, msg) = take_last_panic().unwrap_or_default();
            if prop == E7Prop::C05 {
                rep.violation = Some(tv(prop, rep.steps, &panic_class(&loc), format!("TinyLFU(size={}, samples={}, fp={}) panicked at {loc} after {} ops: {msg}", c.size, c.samples, c.fp, rep.steps)));
            } else {
                rep.aborted_by_panic = Some((loc, msg));
            }
        }
    }
    rep
}

fn run_tinylfu_inner(c: &TCase, prop: E7Prop, rep: &mut CaseReport) -> Result<(), Violation> {
    let mut t = match build_tinylfu(c) {
        Ok(t) => t,
        Err(e) => {
            rep.unbuildable = Some(e);
            return Ok(());
        }
    };
    let mut m = MT::new(c.samples);
    let mut recorded: Vec<u64> = vec![]; // distinct hashes recorded since construction / clear
    let mut probes: Vec<u64> = vec![0, u64::MAX, 5, 1 << 32];
    let mut twin: Option<TinyLFU<u64, KHS<u64>>> = None;
    let mut cloned_nonempty = false;
    let key = |k: u64| c.single.unwrap_or(k);
    let record = |h: u64, recorded: &mut Vec<u64>, probes: &mut Vec<u64>| {
        if !recorded.contains(&h) {
            recorded.push(h);
        }
        if !probes.contains(&h) && probes.len() < 40 {
            probes.push(h);
        }
    };
    for (i, op) in c.ops.iter().enumerate() {
        rep.steps = i + 1;
        let r0 = m.resets;
        macro_rules! both {
            ($f:expr) => {{
                $f(&mut t);
                if let Some(tw) = twin.as_mut() {
                    $f(tw);
                }
            }};
        }
        match op {
            TOp::Inc(k) => {
                let k = key(*k);
                let h = t.hash_key(&k);
                both!(|x: &mut TinyLFU<u64, KHS<u64>>| x.increment(&k));
                m.inc(h);
                record(h, &mut recorded, &mut probes);
            }
            TOp::IncHashed(h) => {
                let h = match c.single {
                    Some(k) => t.hash_key(&k),
                    None => *h,
                };
                both!(|x: &mut TinyLFU<u64, KHS<u64>>| x.increment_hashed_key(h));
                m.inc(h);
                record(h, &mut recorded, &mut probes);
            }
            TOp::IncKeys(ks) => {
                let ks: Vec<u64> = ks.iter().map(|k| key(*k)).collect();
                let refs: Vec<&u64> = ks.iter().collect();
                both!(|x: &mut TinyLFU<u64, KHS<u64>>| x.increment_keys(&refs));
                for k in &ks {
                    let h = t.hash_key(k);
                    m.inc(h);
                    record(h, &mut recorded, &mut probes);
                }
            }
            TOp::IncHashedKeys(hs) => {
                let hs: Vec<u64> = hs.iter().map(|h| c.single.map(|k| t.hash_key(&k)).unwrap_or(*h)).collect();
                both!(|x: &mut TinyLFU<u64, KHS<u64>>| x.increment_hashed_keys(&hs));
                for h in &hs {
                    m.inc(*h);
                    record(*h, &mut recorded, &mut probes);
                }
            }
            TOp::Burst(h, n) => {
                let h = match c.single {
                    Some(k) => t.hash_key(&k),
                    None => *h,
                };
                for _ in 0..*n {
                    both!(|x: &mut TinyLFU<u64, KHS<u64>>| x.increment_hashed_key(h));
                    m.inc(h);
                }
                record(h, &mut recorded, &mut probes);
            }
            TOp::TryReset => {
                both!(|x: &mut TinyLFU<u64, KHS<u64>>| x.try_reset());
                m.try_reset();
            }
            TOp::Clear => {
                both!(|x: &mut TinyLFU<u64, KHS<u64>>| x.clear());
                m.clear();
                for h in probes.iter() {
                    let e = t.estimate_hashed_key(*h);
                    if e != 0 || t.contains_hash(*h) {
                        return Err(tv(prop, i, "nonzero-after-clear", format!("step {i}: right after clear, estimate_hashed_key({h}) = {e}, contains_hash = {}", t.contains_hash(*h))));
                    }
                }
                recorded.clear();
            }
            TOp::Probe(h) => {
                if !probes.contains(h) && probes.len() < 40 {
                    probes.push(*h);
                }
                // key-based and hash-based queries agree
                let k = key(*h);
                let kh = t.hash_key(&k);
                if t.estimate(&k) != t.estimate_hashed_key(kh) || t.contains(&k) != t.contains_hash(kh) {
                    return Err(tv(prop, i, "key-vs-hash", format!("step {i}: estimate({k}) = {} but estimate_hashed_key(hash_key({k})) = {}; contains {} vs {}", t.estimate(&k), t.estimate_hashed_key(kh), t.contains(&k), t.contains_hash(kh))));
                }
            }
            TOp::Cmp(a, b) => {
                let (a, b) = (*a, *b);
                let (ea, eb) = (t.estimate(&a), t.estimate(&b));
                let got = (t.lt(&a, &b), t.le(&a, &b), t.gt(&a, &b), t.ge(&a, &b), t.eq(&a, &b));
                let want = (ea < eb, ea <= eb, ea > eb, ea >= eb, ea == eb);
                if got != want && matches!(prop, E7Prop::C11) {
                    return Err(tv(prop, i, "compare", format!("step {i}: estimate({a}) = {ea}, estimate({b}) = {eb}, but (lt, le, gt, ge, eq) = {:?}, expected {:?}", got, want)));
                }
            }
            TOp::Clone => {
                if twin.is_none() {
                    // clone(), or clone_from() into an estimator of another configuration
                    let tw = if i % 2 == 0 {
                        t.clone()
                    } else {
                        // another sketch size, and a doorkeeper of another size (few vs many samples, other ratio)
                        let other = TCase { size: c.size % 7 + 1, samples: if i % 4 == 1 { c.samples % 5 + 1 } else { 900 + c.samples * 7 }, fp: if i % 4 == 1 { 0.3 } else { 0.001 }, kh: c.kh, sketch_seed: Some(99), single: None, ops: vec![] };
                        match build_tinylfu(&other) {
                            Ok(mut o) => {
                                o.increment_hashed_key(3);
                                o.clone_from(&t);
                                o
                            }
                            Err(_) => t.clone(),
                        }
                    };
                    if tw.verif_dump() != t.verif_dump() && prop == E7Prop::C16 {
                        return Err(tv(prop, i, "clone-differs", format!("step {i}: the clone's estimator state differs from the original's")));
                    }
                    if !recorded.is_empty() {
                        cloned_nonempty = true;
                    }
                    twin = Some(tw);
                }
            }
        }
        if m.resets > r0 {
            rep.stats.hit(Ev::EstimatorReset);
        }
        // ---- oracle after every step
        if prop == E7Prop::C11 {
            for h in probes.iter() {
                let (r, e) = (t.estimate_hashed_key(*h), m.est(*h));
                if r < e || r > 16 {
                    return Err(tv(prop, i, "estimate-bound", format!("step {i} {op:?}: estimate_hashed_key({h}) = {r}, exact aged access count = {e} (must be >= it and <= 16); size={} samples={} fp={}", c.size, c.samples, c.fp)));
                }
                if recorded.len() <= 1 && recorded.contains(h) && r != e {
                    return Err(tv(prop, i, "single-key-exact", format!("step {i} {op:?}: only hash {h} has been recorded since construction/clear; estimate {r} != exact aged count {e}; size={} samples={}", c.size, c.samples)));
                }
                if recorded.is_empty() && r != 0 {
                    return Err(tv(prop, i, "estimate-from-nothing", format!("step {i} {op:?}: nothing recorded since construction/clear but estimate_hashed_key({h}) = {r}")));
                }
                if m.dk(*h) && !t.contains_hash(*h) {
                    return Err(tv(prop, i, "doorkeeper-false-negative", format!("step {i} {op:?}: hash {h} was recorded since the last reset but contains_hash is false")));
                }
            }
            let (w, s) = t.verif_window();
            if s != c.samples || w != m.w {
                return Err(tv(prop, i, "reset-schedule", format!("step {i} {op:?}: access counter {w} (samples {s}); by the statement's schedule it is {} of {}", m.w, c.samples)));
            }
        }
        if prop == E7Prop::C16 {
            if let Some(tw) = twin.as_ref() {
                if tw.verif_dump() != t.verif_dump() {
                    return Err(tv(prop, i, "lockstep-differs", format!("step {i} {op:?}: original and clone diverged under the same operations")));
                }
            }
        }
    }
    if prop == E7Prop::C16 {
        if let Some(mut tw) = twin.take() {
            // independence: work on the clone, the original must not notice; then drop it
            let snap = t.verif_dump();
            for j in 0..20u64 {
                tw.increment_hashed_key(j % 3);
                tw.try_reset();
            }
            tw.clear();
            if t.verif_dump() != snap {
                return Err(tv(prop, c.ops.len(), "not-independent", "operations on the clone changed the original's estimator state".to_string()));
            }
            drop(tw);
            if t.verif_dump() != snap {
                return Err(tv(prop, c.ops.len(), "drop-not-independent", "dropping the clone changed the original".to_string()));
            }
            t.increment_hashed_key(1);
            let _ = t.estimate_hashed_key(1);
        }
    }
    rep.nontrivial = match prop {
        E7Prop::C11 => m.resets >= 1 && m.halved_gt1 >= 1,
        E7Prop::C16 => cloned_nonempty,
        _ => rep.steps >= 10,
    };
    Ok(())
}

// ------------------------------------------------------------------------------ SampledLFU

#[derive(Clone, Debug, Serialize, Deserialize, PartialEq)]
pub enum SOp {
    Inc(u64, i64),
    IncHashed(u64, i64),
    Update(u64, i64),
    UpdateHashed(u64, i64),
    Remove(u64),
    RemoveHashed(u64),
    Clear,
    UpdateMaxCost(i64),
    /// input pairs, spare capacity of the input vector
    FillSample(Vec<(u64, i64)>, u8),
    RoomLeft(i64),
    /// a burst of `n` distinct hashed keys `start..start+n`, each with `cost`, of which all but the
    /// first `keep` are removed again at once (keep = 255: none is removed): drives the tracker's
    /// table through sizes (and allocation thresholds) that single operations never reach
    Burst { start: u64, n: u16, cost: i64, keep: u8 },
}

#[derive(Clone, Debug, Serialize, Deserialize)]
pub struct SCase {
    pub max_cost: i64,
    pub samples: usize,
    pub kh: KhSpec,
    pub hs: HSpec,
    pub ctor: u8,
    pub ops: Vec<SOp>,
}

fn cost(extreme: bool) -> BoxedStrategy<i64> {
    if extreme {
        // C20 only: costs near the ends of the i64 range (the exact sums may still fit; where
        // they do not, nothing is demanded and a panic of the library is not held against it)
        prop_oneof![
            12 => -20i64..100,
            2 => -(1i64 << 40)..(1i64 << 40),
            1 => Just(0i64),
            1 => prop::sample::select(vec![i64::MAX - 10, i64::MAX, i64::MAX / 2 + 3, 1i64 << 62, -(1i64 << 62), i64::MIN + 10, i64::MIN / 2 - 3]),
        ]
        .boxed()
    } else {
        prop_oneof![12 => -20i64..100, 2 => -(1i64 << 40)..(1i64 << 40), 1 => Just(0i64), 1 => Just(i64::from(i32::MAX)), 1 => Just(-(1i64 << 40))].boxed()
    }
}

/// "all max costs": small, wide, and the ends of the i64 range (an "unbounded" limit)
fn max_cost_strategy() -> BoxedStrategy<i64> {
    prop_oneof![
        12 => 0i64..1000,
        4 => -(1i64 << 50)..(1i64 << 50),
        1 => prop::sample::select(vec![i64::MAX, i64::MIN, i64::MAX - 7, i64::MIN + 7, i64::MAX / 2, i64::MIN / 2]),
    ]
    .boxed()
}

pub fn scase_strategy(thorough: bool, extreme: bool) -> BoxedStrategy<SCase> {
    if extreme {
        // one case in eight draws its costs from the set with values near the ends of the i64
        // range, and is short (most long sequences of such costs leave the i64 range)
        return prop_oneof![7 => scase_strategy_with(thorough, false), 1 => scase_strategy_with(false, true)].boxed();
    }
    scase_strategy_with(thorough, false)
}

fn burst_op() -> BoxedStrategy<SOp> {
    (
        prop_oneof![1 => Just(0u64), 2 => Just(1u64 << 20), 1 => any::<u64>()],
        prop_oneof![2 => 1u16..200, 2 => 900u16..4000, 1 => 200u16..900],
        -3i64..50,
        prop_oneof![3 => 0u8..8, 1 => Just(255u8)],
    )
        .prop_map(|(start, n, cost, keep)| SOp::Burst { start, n, cost, keep })
        .boxed()
}

fn scase_strategy_with(thorough: bool, extreme: bool) -> BoxedStrategy<SCase> {
    if !extreme {
        // one case in sixteen contains bursts of up to 4 000 distinct keys
        return prop_oneof![15 => scase_strategy_with2(thorough, false, 0), 1 => scase_strategy_with2(false, false, 4)].boxed();
    }
    scase_strategy_with2(thorough, extreme, 0)
}

fn scase_strategy_with2(thorough: bool, extreme: bool, burst_weight: u32) -> BoxedStrategy<SCase> {
    let cost = move || cost(extreme);
    let key = || prop_oneof![10 => 0u64..8, 1 => Just(u64::MAX), 1 => Just(0u64), 1 => any::<u64>()];
    let op = prop_oneof![
        20 => (key(), cost()).prop_map(|(k, c)| SOp::Inc(k, c)),
        15 => (key(), cost()).prop_map(|(k, c)| SOp::IncHashed(k, c)),
        6 => (key(), cost()).prop_map(|(k, c)| SOp::Update(k, c)),
        6 => (key(), cost()).prop_map(|(k, c)| SOp::UpdateHashed(k, c)),
        8 => key().prop_map(SOp::Remove),
        8 => key().prop_map(SOp::RemoveHashed),
        1 => Just(SOp::Clear),
        3 => max_cost_strategy().prop_map(SOp::UpdateMaxCost),
        6 => (prop::collection::vec((key(), cost()), 0..8), prop_oneof![1 => Just(0u8), 1 => 1u8..40]).prop_map(|(v, slack)| SOp::FillSample(v, slack)),
        8 => cost().prop_map(SOp::RoomLeft),
    ]
    .boxed();
    let op = if burst_weight > 0 { prop_oneof![81 => op, burst_weight => burst_op()].boxed() } else { op };
    let n = if extreme { 12 } else if thorough { 200 } else { 80 };
    (
        max_cost_strategy(),
        prop_oneof![8 => 0usize..10, 1 => 10usize..64],
        prop::sample::select(vec![KhSpec::Default, KhSpec::Ident, KhSpec::Const, KhSpec::Fnv(1)]),
        prop::sample::select(vec![HSpec::Fnv(1), HSpec::Ident, HSpec::Zero, HSpec::Random]),
        0u8..4,
        prop::collection::vec(op, 0..=n),
    )
        .prop_map(|(max_cost, samples, kh, hs, ctor, ops)| SCase { max_cost, samples, kh, hs, ctor, ops })
        .boxed()
}

fn sv(prop: E7Prop, step: usize, class: &str, msg: String) -> Violation {
    Violation { prop: if prop == E7Prop::C05 { "C05" } else { "C20" }, step, msg, sig: format!("sampledlfu/-/{}", class) }
}

pub fn run_sampled(c: &SCase, prop: E7Prop) -> CaseReport {
    reset_case();
    let mut rep = CaseReport::default();
    let r = catch_unwind(AssertUnwindSafe(|| run_sampled_inner(c, prop, &mut rep)));
    match r {
        Ok(Ok(())) => {}
        Ok(Err(v)) => rep.violation = Some(v),
        Err(_) => {
            let (loc, msg) = take_last_panic().unwrap_or_default();
            if prop == E7Prop::C05 {
                rep.violation = Some(sv(prop, rep.steps, &panic_class(&loc), format!("SampledLFU panicked at {loc} after {} ops: {msg}", rep.steps)));
            } else {
                rep.aborted_by_panic = Some((loc, msg));
            }
        }
    }
    rep
}

fn run_sampled_inner(c: &SCase, prop: E7Prop, rep: &mut CaseReport) -> Result<(), Violation> {
    // four of the constructors; the model knows the effective sample size
    let kh = || mk_khs::<TKey>(c.kh).into_u64();
    let mut samples = c.samples;
    let mut s: SampledLFU<u64, KHS<u64>, HS> = match c.ctor {
        0 => SampledLFU::with_samples_and_key_hasher_and_hasher(c.max_cost, c.samples, kh(), mk_hs(c.hs)),
        1 => {
            samples = 5;
            SampledLFU::with_samples_and_key_hasher_and_hasher(c.max_cost, 5, kh(), mk_hs(c.hs))
        }
        _ => SampledLFU::with_samples_and_key_hasher_and_hasher(c.max_cost, c.samples, kh(), mk_hs(c.hs)),
    };
    let mut m: BTreeMap<u64, i64> = BTreeMap::new();
    // the exact sum of the recorded costs, kept incrementally (bursts make `m` large)
    let mut sum: i128 = 0;
    macro_rules! ins {
        ($k:expr, $v:expr) => {{
            if let Some(o) = m.insert($k, $v) {
                sum -= o as i128;
            }
            sum += $v as i128;
        }};
    }
    macro_rules! rem {
        ($k:expr) => {{
            let o = m.remove($k);
            if let Some(o) = o {
                sum -= o as i128;
            }
            o
        }};
    }
    let mut burst_cleared = false;
    let mut grown = false;
    let mut max_cost = c.max_cost;
    let mut reinc_then_check = false;
    let mut reinc_pending = false;
    let mut extreme_checked = false;
    for (i, op) in c.ops.iter().enumerate() {
        rep.steps = i + 1;
        let chk = prop == E7Prop::C20;
        match op {
            SOp::Inc(k, cst) => {
                let h = s.hash_key(k);
                if m.contains_key(&h) {
                    reinc_pending = true;
                }
                s.increment(k, *cst);
                ins!(h, *cst);
            }
            SOp::IncHashed(h, cst) => {
                if m.contains_key(h) {
                    reinc_pending = true;
                }
                s.increment_hashed_key(*h, *cst);
                ins!(*h, *cst);
            }
            SOp::Update(k, cst) => {
                let h = s.hash_key(k);
                let r = s.update(k, *cst);
                let e = m.contains_key(&h);
                if e {
                    ins!(h, *cst);
                }
                if chk && r != e {
                    return Err(sv(prop, i, "update-result", format!("step {i} {op:?}: update returned {r}, key tracked: {e}")));
                }
            }
            SOp::UpdateHashed(h, cst) => {
                let r = s.update_hashed_key(*h, *cst);
                let e = m.contains_key(h);
                if e {
                    ins!(*h, *cst);
                }
                if chk && r != e {
                    return Err(sv(prop, i, "update-result", format!("step {i} {op:?}: update_hashed_key returned {r}, key tracked: {e}")));
                }
            }
            SOp::Remove(k) => {
                let h = s.hash_key(k);
                let r = s.remove(k);
                let e = rem!(&h);
                if reinc_pending {
                    reinc_then_check = true;
                }
                if chk && r != e {
                    return Err(sv(prop, i, "remove-result", format!("step {i} {op:?}: remove returned {:?}, recorded cost {:?}", r, e)));
                }
            }
            SOp::RemoveHashed(h) => {
                let r = s.remove_hashed_key(*h);
                let e = rem!(h);
                if reinc_pending {
                    reinc_then_check = true;
                }
                if chk && r != e {
                    return Err(sv(prop, i, "remove-result", format!("step {i} {op:?}: remove_hashed_key returned {:?}, recorded cost {:?}", r, e)));
                }
            }
            SOp::Clear => {
                s.clear();
                m.clear();
                sum = 0;
                if grown {
                    burst_cleared = true;
                }
            }
            SOp::Burst { start, n, cost, keep } => {
                for j in 0..*n as u64 {
                    let h = start.wrapping_add(j);
                    s.increment_hashed_key(h, *cost);
                    ins!(h, *cost);
                }
                if m.len() > 1024 {
                    grown = true;
                }
                if *keep != 255 {
                    for j in (*keep as u64).min(*n as u64)..*n as u64 {
                        let h = start.wrapping_add(j);
                        let r = s.remove_hashed_key(h);
                        let e = rem!(&h);
                        if chk && r != e {
                            return Err(sv(prop, i, "remove-result", format!("step {i} {op:?}: remove_hashed_key({h}) returned {:?}, recorded cost {:?}", r, e)));
                        }
                    }
                }
            }
            SOp::UpdateMaxCost(mc) => {
                s.update_max_cost(*mc);
                max_cost = *mc;
            }
            SOp::FillSample(input, slack) => {
                // the caller's vector may have any spare capacity (a reused scratch buffer)
                let mut arg: Vec<(u64, i64)> = Vec::with_capacity(input.len() + *slack as usize);
                arg.extend(input.iter().cloned());
                let outv = s.fill_sample(arg);
                if chk {
                    let bad = |why: &str| sv(prop, i, "fill-sample", format!("step {i}: fill_sample({:?}) with samples={} tracked={:?} returned {:?}: {}", input, samples, m, outv, why));
                    if outv.len() < input.len() || outv[..input.len()] != input[..] {
                        return Err(bad("the result does not start with the input"));
                    }
                    if input.len() >= samples {
                        if outv.len() != input.len() {
                            return Err(bad("input already has the sample size: it must be returned unchanged"));
                        }
                    } else {
                        let want = samples.min(input.len() + m.len());
                        if outv.len() != want {
                            return Err(bad(&format!("expected length {}", want)));
                        }
                        let mut seen = std::collections::BTreeSet::new();
                        for (k, v) in &outv[input.len()..] {
                            if m.get(k) != Some(v) {
                                return Err(bad("an appended pair is not a currently tracked (key, cost)"));
                            }
                            if !seen.insert(*k) {
                                return Err(bad("a tracked key was appended twice"));
                            }
                        }
                    }
                }
            }
            SOp::RoomLeft(_) => {
                if reinc_pending {
                    reinc_then_check = true;
                }
            }
        }
        if chk {
            let probe = match op {
                SOp::RoomLeft(cst) => *cst,
                _ => 0,
            };
            let got = s.room_left(probe);
            // exact value in i128; where it does not fit into an i64 there is no right answer
            // and nothing is demanded (the sum of <= 200 costs below 2^40 always fits)
            let exact = max_cost as i128 - sum - probe as i128;
            if s.get_max_cost() != max_cost {
                return Err(sv(prop, i, "room-left", format!("step {i} {op:?}: get_max_cost() = {}, configured {max_cost}", s.get_max_cost())));
            }
            if let Ok(want) = i64::try_from(exact) {
                if got != want {
                    return Err(sv(prop, i, "room-left", format!("step {i} {op:?}: room_left({probe}) = {got}, but max_cost {max_cost} - recorded costs {sum} - {probe} = {want}; tracked {}", if m.len() <= 32 { format!("{:?}", m) } else { format!("{} keys", m.len()) })));
                }
                if max_cost > (1i64 << 60) || max_cost < -(1i64 << 60) {
                    extreme_checked = true;
                }
            }
        }
    }
    if burst_cleared {
        rep.stats.hit(crate::model::Ev::BurstCleared);
    }
    if extreme_checked {
        rep.stats.hit(crate::model::Ev::ExtremeLimit);
    }
    rep.nontrivial = if prop == E7Prop::C20 { reinc_then_check } else { rep.steps >= 10 };
    Ok(())
}

// ------------------------------------------------------------------ SampledLFU with String keys

const SKEYS: [&str; 6] = ["", "a", "b", "ab", "\0", "a longer key that does not fit a small string"];

/// the key-based API with `String` keys, every call alternately through the owned form
/// (`&String`) and the borrowed form (`&str`), the empty key included: both forms must name the
/// same tracked key (C20: "update and remove report exactly whether the key was tracked")
pub fn run_sampled_str(c: &SCase) -> Option<Violation> {
    let kh = mk_khs::<String>(match c.kh {
        KhSpec::Default => KhSpec::Default,
        other => other,
    });
    let mut s: SampledLFU<String, KHS<String>, HS> = SampledLFU::with_samples_and_key_hasher_and_hasher(c.max_cost, c.samples, kh, mk_hs(c.hs));
    // tracked by hashed key, as the tracker does (a key hasher may map several keys to one)
    let mut m: BTreeMap<u64, i64> = BTreeMap::new();
    let r = catch_unwind(AssertUnwindSafe(|| -> Option<Violation> {
        for (i, op) in c.ops.iter().enumerate() {
            let (k, cst) = match op {
                SOp::Inc(k, c) | SOp::IncHashed(k, c) | SOp::Update(k, c) | SOp::UpdateHashed(k, c) => (*k, *c),
                SOp::Remove(k) | SOp::RemoveHashed(k) => (*k, 0),
                _ => (0, 0),
            };
            let name = SKEYS[(k % SKEYS.len() as u64) as usize];
            let owned = String::from(name);
            let borrowed_form = (i as u64 + k) % 2 == 1;
            // both forms hash alike
            let h = s.hash_key(&owned);
            if s.hash_key(name) != h {
                return Some(sv(E7Prop::C20, i, "str-hash", format!("step {i}: hash_key({:?}) differs between the &str and the &String form", name)));
            }
            match op {
                SOp::Inc(..) | SOp::IncHashed(..) => {
                    if m.values().map(|x| *x as i128).sum::<i128>() + cst as i128 > i64::MAX as i128 / 2 || cst.checked_abs().map(|a| a > (1i64 << 41)).unwrap_or(true) {
                        continue;
                    }
                    if borrowed_form {
                        s.increment(name, cst);
                    } else {
                        s.increment(&owned, cst);
                    }
                    m.insert(h, cst);
                }
                SOp::Update(..) | SOp::UpdateHashed(..) => {
                    if cst.checked_abs().map(|a| a > (1i64 << 41)).unwrap_or(true) {
                        continue;
                    }
                    let r = if borrowed_form { s.update(name, cst) } else { s.update(&owned, cst) };
                    let e = m.contains_key(&h);
                    if e {
                        m.insert(h, cst);
                    }
                    if r != e {
                        return Some(sv(E7Prop::C20, i, "str-update", format!("step {i}: update({:?} as {}) returned {r}, key tracked: {e}; tracked {:?}", name, if borrowed_form { "&str" } else { "&String" }, m)));
                    }
                }
                SOp::Remove(..) | SOp::RemoveHashed(..) => {
                    let r = if borrowed_form { s.remove(name) } else { s.remove(&owned) };
                    let e = m.remove(&h);
                    if r != e {
                        return Some(sv(E7Prop::C20, i, "str-remove", format!("step {i}: remove({:?} as {}) returned {:?}, recorded cost {:?}", name, if borrowed_form { "&str" } else { "&String" }, r, e)));
                    }
                }
                SOp::Clear => {
                    s.clear();
                    m.clear();
                }
                _ => {}
            }
            let exact = s.get_max_cost() as i128 - m.values().map(|x| *x as i128).sum::<i128>();
            if let Ok(want) = i64::try_from(exact) {
                let got = s.room_left(0);
                if got != want {
                    return Some(sv(E7Prop::C20, i, "str-room-left", format!("step {i} {op:?} (String keys): room_left(0) = {got}, expected {want}; tracked {:?}", m)));
                }
            }
        }
        None
    }));
    match r {
        Ok(v) => v,
        Err(_) => {
            let _ = take_last_panic();
            None
        }
    }
}

// ------------------------------------------------------------------ TinyLFU with unsized borrowed keys

/// `TinyLFU<String>` driven through `&str` keys that are *overlapping slices of one buffer*
/// (prefixes: same start address, different lengths) and through separately allocated equal
/// strings: lt/le/gt/ge/eq must order two keys exactly as their estimates do, whatever the
/// addresses of the borrowed forms are (C11, last clause; C17 address independence)
pub fn run_tinylfu_str(c: &TCase) -> Option<Violation> {
    #[cfg(feature = "std")]
    caches::lfu::verif_pin_sketch_seed(c.sketch_seed);
    let built = TinyLFUBuilder::<String, KHS<String>>::with_hasher(mk_khs::<String>(c.kh)).set_size(c.size).set_samples(c.samples).set_false_positive_ratio(c.fp).finalize();
    #[cfg(feature = "std")]
    caches::lfu::verif_pin_sketch_seed(None);
    let mut t = built.ok()?;
    let buf = String::from("k0k1k2k3k4k5");
    let r = catch_unwind(AssertUnwindSafe(|| -> Option<Violation> {
        for (i, op) in c.ops.iter().enumerate() {
            let (h, n) = match op {
                TOp::Inc(h) | TOp::IncHashed(h) | TOp::Probe(h) => (*h, 1u32),
                TOp::Burst(h, n) => (*h, *n as u32),
                TOp::Cmp(a, _) => (*a, 0),
                TOp::Clear => {
                    t.clear();
                    continue;
                }
                TOp::TryReset => {
                    t.try_reset();
                    continue;
                }
                _ => continue,
            };
            let key: &str = &buf[..2 * ((h % 6) as usize + 1)];
            for _ in 0..n {
                t.increment(key);
            }
            if i % 8 != 7 && i + 1 != c.ops.len() {
                continue;
            }
            for x in 0..6usize {
                for y in 0..6usize {
                    let (a, b): (&str, &str) = (&buf[..2 * (x + 1)], &buf[..2 * (y + 1)]);
                    // also through a separately allocated copy of the same key
                    let b_owned = String::from(b);
                    let (ea, eb) = (t.estimate(a), t.estimate(b));
                    let want = (ea < eb, ea <= eb, ea > eb, ea >= eb, ea == eb);
                    let got = (t.lt(a, b), t.le(a, b), t.gt(a, b), t.ge(a, b), t.eq(a, b));
                    let got2 = (t.lt(a, b_owned.as_str()), t.le(a, b_owned.as_str()), t.gt(a, b_owned.as_str()), t.ge(a, b_owned.as_str()), t.eq(a, b_owned.as_str()));
                    if got != want || got2 != want {
                        return Some(tv(E7Prop::C11, i, "str-compare", format!("step {i}: keys {:?} and {:?} (prefix slices of one buffer): estimates {ea} and {eb}, but (lt, le, gt, ge, eq) = {:?} through the slices and {:?} through a separately allocated copy, expected {:?}", a, b, got, got2, want)));
                    }
                }
            }
        }
        None
    }));
    match r {
        Ok(v) => v,
        Err(_) => {
            let _ = take_last_panic();
            None
        }
    }
}
