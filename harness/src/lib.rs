//! Verification harness for al8n/caches-rs: property-based testing and fuzzing engines.
pub mod alloc;
pub mod checks;
pub mod e2;
pub mod e4;
pub mod e5;
pub mod e6;
pub mod e7;
pub mod gen;
pub mod inst;
pub mod interp;
pub mod model;
pub mod multi;
pub mod ops;
pub mod registry;
pub mod runner;
pub mod sut;
