//! property id -> engines; replay dispatch; evidence file.

use crate::checks::*;
use crate::interp::*;
use crate::ops::*;
use serde_json::{json, Value};

pub fn prop_of(id: &str) -> Option<Prop> {
    Some(match id {
        "C01" => Prop::C01,
        "C02" => Prop::C02,
        "C03" => Prop::C03,
        "C04" => Prop::C04,
        "C05" => Prop::C05,
        "C06" => Prop::C06,
        "C07" => Prop::C07,
        "C08" => Prop::C08,
        "C09" => Prop::C09,
        "C10" => Prop::C10,
        "C12" => Prop::C12,
        "C18" => Prop::Trace,
        "C14" => Prop::C14,
        "C15" => Prop::C15,
        _ => return None,
    })
}

/// run every engine registered for the property
pub fn run_check(ctx: &Ctx) -> Outcome {
    let mut out = Outcome { level: "exploration", ..Default::default() };
    out.assumptions = vec![
        "bounded exploration: absence of violations is established only for the generated cases".into(),
        "the verification hooks (feature verif-hooks) report the internal lists faithfully".into(),
    ];
    // open known findings of this property: the dedicated replay confirms that the finding
    // still reproduces; it is printed as KNOWN-FINDING and never counted as a violation
    for (ix, (p, sig, text)) in ctx.known.open.iter().enumerate() {
        if p != &ctx.id {
            continue;
        }
        let status = match ctx.known.replay.get(ix).and_then(|r| r.clone()) {
            None => "listed",
            Some(rel) => match replay_file(&format!("{}/{}", ctx.verif_dir, rel)) {
                Ok(Some(v)) if &v.sig == sig => "still reproduces",
                Ok(Some(_)) => "replay now fails differently",
                Ok(None) => "does not reproduce on this tree / toolchain",
                Err(_) => "replay file unreadable",
            },
        };
        out.known_lines.push(format!("KNOWN-FINDING: property={} sig={} [{}] {}", p, sig, status, text));
    }
    // seconds-long replay tier: committed counterexamples of repaired defects and of seeded
    // changes (regress/<id>/*.json) are re-executed first; on a tree where the property holds
    // they all pass, and a defect that returns is reported with that file as the replay
    let rdir = format!("{}/regress/{}", ctx.verif_dir, ctx.id);
    let mut replayed = 0u64;
    let skip_regress = std::env::var_os("VH_NO_REGRESS").is_some();
    if let (false, Ok(rd)) = (skip_regress, std::fs::read_dir(&rdir)) {
        let mut files: Vec<String> = rd.flatten().map(|e| e.path().to_string_lossy().to_string()).filter(|p| p.ends_with(".json")).collect();
        files.sort();
        for f in files {
            if f.contains("/crash-") || f.contains("e5-") {
                continue; // crash files are replayed by `./check <id> --replay` in a child process
            }
            replayed += 1;
            match replay_file(&f) {
                Ok(Some(v)) => {
                    if ctx.known.matches(&ctx.id, &v.sig).is_none() {
                        out.violations.push((f.clone(), format!("regression replay fails again: {}", v.msg)));
                    }
                }
                Ok(None) => {}
                Err(e) => out.inconclusive = Some(format!("cannot replay {}: {}", f, e)),
            }
        }
    }
    out.coverage.insert("regression_replays_passed".into(), json!(replayed - out.violations.len() as u64));
    // the library has two feature configurations (std / no_std with hashbrown + libm: other
    // hash map, other sketch, libm floor/ceil/ln): every check except C19 also runs in the
    // no_std build of the harness, C05 and C11 at full scale, the others at a third
    if !matches!(ctx.id.as_str(), "C05" | "C11" | "C19") && ctx.scale >= 1.0 {
        run_nostd_child_scaled(ctx, &mut out, 0.34);
    }
    match ctx.id.as_str() {
        "C01" => {
            check_e1(ctx, Prop::C01, &mut out, 12000, 250000);
            check_e2(ctx, Prop::C01, &[Kind::Lru, Kind::Seg, Kind::TwoQ, Kind::Arc, Kind::Wtl], &mut out);
            check_ctor_caps(ctx, &mut out);
            // "every internal partition stays within its configured bound": the 2Q quota and
            // ghost bound as configured, through every construction path
            check_2q_quota_grid_for(ctx, &mut out, "C01");
            check_conv(ctx, crate::conv::ConvProp::C01, &mut out, 2000, 40000);
            check_big(ctx, crate::big::BigProp::C01, &[Kind::Lru, Kind::Lru, Kind::Seg, Kind::TwoQ, Kind::Arc, Kind::Wtl], &mut out, 8, 80);
        }
        "C02" => {
            check_e1(ctx, Prop::C02, &mut out, 10000, 200000);
            check_conv(ctx, crate::conv::ConvProp::C02, &mut out, 2000, 40000);
            check_keys(ctx, &mut out, 2000, 40000);
            check_big(ctx, crate::big::BigProp::C02, &[Kind::Lru, Kind::Seg, Kind::TwoQ, Kind::Arc, Kind::Wtl], &mut out, 4, 60);
        }
        "C03" => {
            check_e1(ctx, Prop::C03, &mut out, 12000, 250000);
            check_conv(ctx, crate::conv::ConvProp::C03, &mut out, 2000, 40000);
            check_e1_chaos(ctx, &mut out, 3000, 60000);
            check_big(ctx, crate::big::BigProp::C03, &[Kind::Lru, Kind::Seg, Kind::TwoQ, Kind::Arc, Kind::Wtl], &mut out, 3, 40);
        }
        "C04" => {
            check_e1(ctx, Prop::C04, &mut out, 12000, 250000);
            check_conv(ctx, crate::conv::ConvProp::C04, &mut out, 2000, 40000);
            check_dropglue(ctx, &mut out, 2000, 40000);
            check_big(ctx, crate::big::BigProp::C04, &[Kind::Lru, Kind::Seg, Kind::TwoQ, Kind::Arc, Kind::Wtl], &mut out, 3, 40);
        }
        "C05" => {
            check_c05(ctx, &mut out);
            check_long_runs(ctx, &mut out);
            run_nostd_child(ctx, &mut out);
        }
        "C06" => {
            check_e1(ctx, Prop::C06, &mut out, 12000, 250000);
            check_e1_medium(ctx, Prop::C06, &mut out, 12, 200);
            check_e2(ctx, Prop::C06, &[Kind::Lru], &mut out);
            check_ctor_caps_for(ctx, &mut out, "C06");
            check_vtype(ctx, Kind::Lru, &mut out, 3000, 60000);
            check_big(ctx, crate::big::BigProp::C06, &[Kind::Lru], &mut out, 4, 60);
        }
        "C07" => {
            check_e1(ctx, Prop::C07, &mut out, 12000, 250000);
            check_e1_medium(ctx, Prop::C07, &mut out, 12, 200);
            check_e2(ctx, Prop::C07, &[Kind::Seg], &mut out);
            check_vtype(ctx, Kind::Seg, &mut out, 3000, 60000);
            check_big(ctx, crate::big::BigProp::C07, &[Kind::Seg], &mut out, 3, 40);
            check_ctor_caps_for(ctx, &mut out, "C07");
        }
        "C08" => {
            check_e1(ctx, Prop::C08, &mut out, 12000, 250000);
            check_e1_medium(ctx, Prop::C08, &mut out, 12, 200);
            check_e2(ctx, Prop::C08, &[Kind::TwoQ], &mut out);
            check_2q_quota_grid(ctx, &mut out);
            check_vtype(ctx, Kind::TwoQ, &mut out, 3000, 60000);
            check_big(ctx, crate::big::BigProp::C08, &[Kind::TwoQ], &mut out, 3, 40);
            if ctx.scale >= 1.0 {
                check_twoq_victim_grid(ctx, &mut out);
            }
        }
        "C09" => {
            check_e1(ctx, Prop::C09, &mut out, 12000, 250000);
            check_e1_medium(ctx, Prop::C09, &mut out, 40, 600);
            check_e2(ctx, Prop::C09, &[Kind::Arc], &mut out);
            check_vtype(ctx, Kind::Arc, &mut out, 3000, 60000);
            check_big(ctx, crate::big::BigProp::C09, &[Kind::Arc], &mut out, 4, 60);
            if ctx.scale >= 1.0 {
                check_arc_grid(ctx, &mut out);
            }
        }
        "C10" => {
            check_e1(ctx, Prop::C10, &mut out, 12000, 250000);
            check_e1_medium(ctx, Prop::C10, &mut out, 12, 200);
            check_e2(ctx, Prop::C10, &[Kind::Wtl], &mut out);
        }
        "C12" => {
            check_e1(ctx, Prop::C12, &mut out, 12000, 250000);
            check_e1_medium(ctx, Prop::C12, &mut out, 12, 200);
            check_putresult_laws(ctx, &mut out);
        }
        "C14" => {
            check_e1(ctx, Prop::C14, &mut out, 6000, 100000);
            // caches built by a conversion (repeated keys included) are reachable states too
            check_conv(ctx, crate::conv::ConvProp::C14, &mut out, 2000, 40000);
        }
        "C15" => check_e1(ctx, Prop::C15, &mut out, 12000, 250000),
        "C11" => {
            run_nostd_child(ctx, &mut out);
            check_tinylfu_c11(ctx, &mut out);
            check_c11_long(ctx, &mut out);
        }
        "C11x" => check_tinylfu(ctx, crate::e7::E7Prop::C11, &mut out, 1500, 40000, "generated TinyLFU configurations (size, samples, false-positive ratio, key hasher) x operation sequences over increment / increment_hashed_key / increment_keys / increment_hashed_keys / try_reset / clear / estimate* / contains* / lt..eq with raw hashes from a small alphabet plus 0, u64::MAX, 1<<32, 1<<63 and random values; 30% of the cases use a single key (exact equality with the aged-count model); non-trivial = at least one reset happened and at least one counter > 1 was halved; distinct by FNV-64 of the serialised case"),
        "C20" => check_sampled(ctx, crate::e7::E7Prop::C20, &mut out, 20000, 400000, "generated SampledLFU sequences (increment*, update*, remove*, clear, update_max_cost, fill_sample, room_left) over hashed keys from a small alphabet plus extremes and signed costs (mostly small, tail to +-2^40), max_cost small, wide or at the ends of the i64 range (expected value computed in i128, demanded when it fits); non-trivial = an increment on an already tracked key was followed by remove or room_left; distinct by FNV-64 of the serialised case"),
        "C19" => {
            check_c19(ctx, &mut out);
            check_conc(ctx, &mut out);
            // run-time side of "no two live &mut to one value": what the mutable iterators
            // actually hand out through every positional call and std adaptor
            check_alias(ctx, &mut out, 6000, 100000);
        }
        "C18" => {
            check_c18(ctx, &mut out, 2000, 40000);
            check_conv_faults(ctx, &mut out, 1000, 20000);
        }
        "C13" => {
            check_c13(ctx, &mut out, 8000, 150000);
            check_big(ctx, crate::big::BigProp::C13, &[Kind::Lru, Kind::Seg, Kind::TwoQ, Kind::Arc, Kind::Wtl], &mut out, 10, 120);
        }
        "C16" => {
            check_c16(ctx, &mut out, 8000, 150000);
            check_tinylfu(ctx, crate::e7::E7Prop::C16, &mut out, 4000, 60000, "");
        }
        "C17" => {
            check_c17(ctx, &mut out, 5000, 100000);
            check_conv_det(ctx, &mut out, 2000, 40000);
        }
        other => out.inconclusive = Some(format!("no check registered for {other}")),
    }
    out
}

pub fn replay(prop: &str, engine: &str, case: &Value) -> Result<Option<Violation>, String> {
    match engine {
        "e1" | "e2" | "e3" => {
            let p = prop_of(prop).ok_or_else(|| format!("unknown property {prop}"))?;
            let c: Case = serde_json::from_value(case.clone()).map_err(|e| e.to_string())?;
            Ok(exec_case(&c, p).violation)
        }
        "ctorcaps" | "quotagrid" => {
            let ctx = Ctx { id: prop.to_string(), tier: Tier::Quick, seed: 1, verif_dir: std::env::var("VERIF_DIR").unwrap_or_else(|_| "/verif".into()), known: Default::default(), workers: 1, scale: 1.0 };
            let mut o = Outcome::default();
            let pid: &'static str = match prop {
                "C06" => "C06",
                "C07" => "C07",
                "C08" => "C08",
                _ => "C01",
            };
            if engine == "ctorcaps" {
                check_ctor_caps_for(&ctx, &mut o, pid);
            } else {
                check_2q_quota_grid_for(&ctx, &mut o, pid);
            }
            Ok(o.violations.first().map(|(_, m)| Violation { prop: pid, step: 0, msg: m.clone(), sig: format!("ctor/-/{}", engine) }))
        }
        "longwindow" => {
            let ctx = Ctx { id: "C11".into(), tier: Tier::Thorough, seed: 1, verif_dir: std::env::var("VERIF_DIR").unwrap_or_else(|_| "/verif".into()), known: Default::default(), workers: 1, scale: 1.0 };
            let mut o = Outcome::default();
            check_c11_long(&ctx, &mut o);
            Ok(o.violations.first().map(|(_, m)| Violation { prop: "C11", step: 0, msg: m.clone(), sig: "tinylfu/-/long-window".into() }))
        }
        "longrun" => {
            let ctx = Ctx { id: "C05".into(), tier: Tier::Thorough, seed: 1, verif_dir: std::env::var("VERIF_DIR").unwrap_or_else(|_| "/verif".into()), known: Default::default(), workers: 4, scale: 1.0 };
            let mut o = Outcome::default();
            check_long_runs(&ctx, &mut o);
            Ok(o.violations.first().map(|(_, m)| Violation { prop: "C05", step: 0, msg: m.clone(), sig: "longrun/-/panic".into() }))
        }
        "conc" => {
            let (_, bad) = crate::conc::run_conc(false);
            Ok(bad.map(|m| Violation { prop: "C19", step: 0, msg: m, sig: "conc/-/shared-readers-disagree".into() }))
        }
        "alias" => {
            let c: crate::alias::ACase = serde_json::from_value(case.clone()).map_err(|e| e.to_string())?;
            Ok(crate::alias::run_alias(&c).violation)
        }
        "keys" => {
            let c: crate::keys::KCase = serde_json::from_value(case.clone()).map_err(|e| e.to_string())?;
            Ok(crate::keys::run_keys(&c).violation)
        }
        "twoqgrid" => {
            let (_, _, bad) = crate::big::twoq_victim_grid(false);
            Ok(bad.map(|m| Violation { prop: "C08", step: 0, msg: m, sig: "twoq/-/victim-grid".into() }))
        }
        "arcgrid" => {
            let (_, _, bad) = crate::big::arc_adaptation_grid(false, 8);
            Ok(bad.map(|m| Violation { prop: "C09", step: 0, msg: m, sig: "arc/-/adaptation-grid".into() }))
        }
        "putresult" => {
            let ctx = Ctx { id: "C12".into(), tier: Tier::Quick, seed: 1, verif_dir: std::env::var("VERIF_DIR").unwrap_or_else(|_| "/verif".into()), known: Default::default(), workers: 1, scale: 1.0 };
            let mut o = Outcome::default();
            check_putresult_laws(&ctx, &mut o);
            Ok(o.violations.first().map(|(_, m)| Violation { prop: "C12", step: 0, msg: m.clone(), sig: "putresult/-/law".into() }))
        }
        "e5" => {
            // the replay of a compiler verdict is the whole (deterministic) program sweep
            let r = crate::e5::run_e5(&std::env::var("VERIF_DIR").unwrap_or_else(|_| "/verif".into()));
            if let Some(w) = r.inconclusive {
                return Err(w);
            }
            Ok(r.violation.map(|x| x.0))
        }
        "e4" | "e4churn" => {
            let c: Case = serde_json::from_value(case.clone()).map_err(|e| e.to_string())?;
            Ok(exec_e4(&c).violation)
        }
        "e6" => {
            let c: crate::e6::Call = serde_json::from_value(case.clone()).map_err(|e| e.to_string())?;
            Ok(crate::e6::judge(&c).1)
        }
        "c13" => {
            let c: crate::multi::C13Case = serde_json::from_value(case.clone()).map_err(|e| e.to_string())?;
            Ok(exec_c13(&c).violation)
        }
        "c16" => {
            let c: crate::multi::C16Case = serde_json::from_value(case.clone()).map_err(|e| e.to_string())?;
            Ok(exec_c16(&c).violation)
        }
        "dropglue" => {
            let c: crate::vtype::VCase = serde_json::from_value(case.clone()).map_err(|e| e.to_string())?;
            Ok(crate::vtype::run_dropglue(&c).violation)
        }
        "vtype" => {
            let c: crate::vtype::VCase = serde_json::from_value(case.clone()).map_err(|e| e.to_string())?;
            Ok(crate::vtype::run_vtype(&c).violation)
        }
        "big" => {
            let c: crate::big::BigCase = serde_json::from_value(case.clone()).map_err(|e| e.to_string())?;
            let p = match prop {
                "C01" => crate::big::BigProp::C01,
                "C02" => crate::big::BigProp::C02,
                "C04" => crate::big::BigProp::C04,
                "C06" => crate::big::BigProp::C06,
                "C07" => crate::big::BigProp::C07,
                "C08" => crate::big::BigProp::C08,
                "C09" => crate::big::BigProp::C09,
                "C13" => crate::big::BigProp::C13,
                _ => crate::big::BigProp::C03,
            };
            Ok(crate::big::run_big(&c, p).violation)
        }
        "convd" => {
            let c: crate::conv::ConvCase = serde_json::from_value(case.clone()).map_err(|e| e.to_string())?;
            Ok(crate::conv::run_conv_det(&c).violation)
        }
        "convf" => {
            let c: crate::conv::ConvCase = serde_json::from_value(case.clone()).map_err(|e| e.to_string())?;
            Ok(crate::conv::run_conv_faults(&c).violation)
        }
        "conv" => {
            let c: crate::conv::ConvCase = serde_json::from_value(case.clone()).map_err(|e| e.to_string())?;
            let p = match prop {
                "C01" => crate::conv::ConvProp::C01,
                "C02" => crate::conv::ConvProp::C02,
                "C04" => crate::conv::ConvProp::C04,
                "C14" => crate::conv::ConvProp::C14,
                _ => crate::conv::ConvProp::C03,
            };
            Ok(crate::conv::run_conv(&c, p).violation)
        }
        "tinylfu" => {
            let c: crate::e7::TCase = serde_json::from_value(case.clone()).map_err(|e| e.to_string())?;
            let p = match prop {
                "C05" => crate::e7::E7Prop::C05,
                "C16" => crate::e7::E7Prop::C16,
                _ => crate::e7::E7Prop::C11,
            };
            Ok(crate::e7::run_tinylfu(&c, p).violation)
        }
        "sampled" => {
            let c: crate::e7::SCase = serde_json::from_value(case.clone()).map_err(|e| e.to_string())?;
            let p = if prop == "C05" { crate::e7::E7Prop::C05 } else { crate::e7::E7Prop::C20 };
            Ok(crate::e7::run_sampled(&c, p).violation)
        }
        "c17" => {
            let c: Case = serde_json::from_value(case.clone()).map_err(|e| e.to_string())?;
            Ok(exec_c17(&c).violation)
        }
        other => Err(format!("unknown engine {other}")),
    }
}

pub fn write_evidence(ctx: &Ctx, out: &Outcome, wall_s: f64) -> String {
    let path = format!("{}/evidence/{}.json", ctx.verif_dir, ctx.id);
    let _ = std::fs::create_dir_all(format!("{}/evidence", ctx.verif_dir));
    let mut cov = out.coverage.clone();
    cov.entry("evaluations").or_insert(json!(0));
    cov.entry("distinct_nontrivial").or_insert(json!(0));
    cov.entry("rule").or_insert(json!(""));
    cov.entry("samples").or_insert(json!([]));
    // the counts are summed over all engines of the check; the additional engines and their
    // non-triviality rules
    let extra = extra_engines(&ctx.id);
    if !extra.is_empty() {
        let r = cov.get("rule").and_then(|r| r.as_str()).unwrap_or("").to_string();
        cov.insert("rule".into(), json!(format!("{r} || additional engines counted in the same totals: {extra}")));
    }
    let body = json!({
        "property_id": ctx.id,
        "tier": if ctx.tier == Tier::Quick { "quick" } else { "thorough" },
        "seed": ctx.seed,
        "level": out.level,
        "coverage": Value::Object(cov),
        "assumptions": out.assumptions,
        "wall_s": wall_s,
        "violations": out.violations.len(),
        "build": if cfg!(feature = "nostd") { "no_std (hashbrown+libm)" } else { "std" },
    });
    let _ = std::fs::write(&path, serde_json::to_string_pretty(&body).unwrap());
    path
}

/// per property: the engines added after the history engine, with their non-triviality rules
fn extra_engines(id: &str) -> String {
    const CONV: &str = "conversions (From<Vec/VecDeque/LinkedList/slice/array/BTreeSet/BinaryHeap/BTreeMap/HashMap/HashSet>, collect()) from generated pairs with repeated keys followed by a history; non-trivial = the source had a repeated key and the history is not empty";
    const BIG: &str = "large-scale cases (257 .. 131 073 entries, u64 keys, sequential prefill, history aimed at both ends of the recency order); non-trivial = the prefill filled a cache of at least 1024 entries";
    const VTYPE: &str = "value-type independence (the same history with seven value types); non-trivial = something was evicted (or ghosted) and something updated";
    const MEDIUM: &str = "medium-scale histories (capacities 64..400, 600..2500 operations), same rule as the history engine";
    match id {
        "C01" => "E2 small-scope closure (every reachable state); constructor capacity contracts and the 2Q quota grid (exhaustive, counted separately); CONVERSIONS; BIG",
        "C02" => "CONVERSIONS; key universes (prefix slices of one buffer as reference keys, PathBuf through Path spellings; non-trivial = more puts than the capacity and a lookup through a non-canonical spelling); BIG",
        "C03" => "CONVERSIONS; histories under an inconsistent BuildHasher (same rule as the history engine); BIG",
        "C04" => "CONVERSIONS; asymmetric drop glue (non-trivial = more puts than the capacity and a remove); BIG",
        "C06" | "C07" | "C08" | "C09" => "E2 closure; VTYPE; MEDIUM; BIG; constructor / quota / victim-rule / adaptation grids (exhaustive, counted separately in the coverage object)",
        "C10" | "C12" => "MEDIUM; exhaustive PutResult law pairs (C12)",
        "C13" => "BIG twin runs (the same history with read-only calls inserted)",
        "C17" => "conversions converted twice (non-trivial = at least three distinct keys)",
        "C18" => "conversions with every user-code call as crash point (non-trivial = a crash point inside the conversion itself fired)",
        "C19" => "concurrent readers (counted separately)",
        _ => "",
    }
    .replace("CONVERSIONS", CONV)
    .replace("BIG", BIG)
    .replace("VTYPE", VTYPE)
    .replace("MEDIUM", MEDIUM)
}

const C11_RULE: &str = "generated TinyLFU configurations (size, samples, false-positive ratio, key hasher) x operation sequences over increment / increment_hashed_key / increment_keys / increment_hashed_keys / try_reset / clear / estimate* / contains* / lt..eq with raw hashes from a small alphabet plus 0, u64::MAX, 1<<32, 1<<63 and random values; 30% of the cases use a single key (exact equality with the aged-count model); non-trivial = at least one reset happened and at least one counter > 1 was halved; distinct by FNV-64 of the serialised case; run in the std and in the no_std build";

fn check_tinylfu_c11(ctx: &Ctx, out: &mut Outcome) {
    check_tinylfu(ctx, crate::e7::E7Prop::C11, out, 12000, 250000, C11_RULE);
}

/// C05 / C11 quantify over both feature configurations: run the no_std build of this harness
/// as a child (same check, same seed, no evidence file) and fold its report into ours.
pub fn run_nostd_child(ctx: &Ctx, out: &mut Outcome) {
    run_nostd_child_scaled(ctx, out, ctx.scale)
}

pub fn run_nostd_child_scaled(ctx: &Ctx, out: &mut Outcome, scale: f64) {
    if cfg!(feature = "nostd") {
        return;
    }
    let bin = match std::env::var("VH_NOSTD_BIN") {
        Ok(b) => b,
        Err(_) => {
            out.inconclusive = Some("VH_NOSTD_BIN not set: the no_std build of the harness was not run".into());
            return;
        }
    };
    let tier = if ctx.tier == Tier::Quick { "quick" } else { "thorough" };
    let r = std::process::Command::new(&bin)
        .args(["check", &ctx.id, "--tier", tier, "--seed", &ctx.seed.to_string(), "--verif-dir", &ctx.verif_dir, "--no-evidence", "--emit-json", "--scale", &scale.to_string()])
        .output();
    match r {
        Err(e) => out.inconclusive = Some(format!("cannot run {}: {}", bin, e)),
        Ok(o) => {
            let text = String::from_utf8_lossy(&o.stdout).to_string();
            let mut cov = None;
            for line in text.lines() {
                if let Some(j) = line.strip_prefix("SUBRESULT ") {
                    cov = serde_json::from_str::<Value>(j).ok();
                }
                if line.starts_with("KNOWN-FINDING:") && !out.known_lines.iter().any(|l| l == line) {
                    out.known_lines.push(line.to_string());
                }
            }
            match (o.status.code(), cov) {
                (Some(0), Some(c)) | (Some(1), Some(c)) => {
                    if let Some(vs) = c.get("violations").and_then(|v| v.as_array()) {
                        for v in vs {
                            out.violations.push((v[0].as_str().unwrap_or("").to_string(), format!("[no_std build] {}", v[1].as_str().unwrap_or(""))));
                        }
                    }
                    out.coverage.insert("no_std_build".into(), c.get("coverage").cloned().unwrap_or(Value::Null));
                }
                (code, _) => out.inconclusive = Some(format!("no_std child exited with {:?}: {}", code, text.lines().last().unwrap_or(""))),
            }
        }
    }
}
