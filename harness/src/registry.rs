//! property id -> engines; replay dispatch; evidence file.

use crate::checks::*;
use crate::interp::*;
use crate::ops::*;
use serde_json::{json, Value};

pub fn prop_of(id: &str) -> Option<Prop> {
    Some(match id {
        "C01" => Prop::C01,
        "C02" => Prop::C02,
        "C03" => Prop::C03,
        "C04" => Prop::C04,
        "C05" => Prop::C05,
        "C06" => Prop::C06,
        "C07" => Prop::C07,
        "C08" => Prop::C08,
        "C09" => Prop::C09,
        "C10" => Prop::C10,
        "C12" => Prop::C12,
        "C14" => Prop::C14,
        "C15" => Prop::C15,
        _ => return None,
    })
}

/// run every engine registered for the property
pub fn run_check(ctx: &Ctx) -> Outcome {
    let mut out = Outcome { level: "exploration", ..Default::default() };
    out.assumptions = vec![
        "bounded exploration: absence of violations is established only for the generated cases".into(),
        "the verification hooks (feature verif-hooks) report the internal lists faithfully".into(),
    ];
    match ctx.id.as_str() {
        "C01" => check_e1(ctx, Prop::C01, &mut out, 1500, 40000),
        "C02" => check_e1(ctx, Prop::C02, &mut out, 1200, 30000),
        "C03" => check_e1(ctx, Prop::C03, &mut out, 1500, 40000),
        "C04" => check_e1(ctx, Prop::C04, &mut out, 1500, 40000),
        "C05" => check_e1(ctx, Prop::C05, &mut out, 1500, 40000),
        "C06" => check_e1(ctx, Prop::C06, &mut out, 1500, 40000),
        "C07" => check_e1(ctx, Prop::C07, &mut out, 1500, 40000),
        "C08" => check_e1(ctx, Prop::C08, &mut out, 1500, 40000),
        "C09" => check_e1(ctx, Prop::C09, &mut out, 1500, 40000),
        "C10" => check_e1(ctx, Prop::C10, &mut out, 1500, 40000),
        "C12" => check_e1(ctx, Prop::C12, &mut out, 1500, 40000),
        "C14" => check_e1(ctx, Prop::C14, &mut out, 1000, 20000),
        "C15" => check_e1(ctx, Prop::C15, &mut out, 1500, 40000),
        other => out.inconclusive = Some(format!("no check registered for {other}")),
    }
    out
}

pub fn replay(prop: &str, engine: &str, case: &Value) -> Result<Option<Violation>, String> {
    match engine {
        "e1" | "e2" | "e3" => {
            let p = prop_of(prop).ok_or_else(|| format!("unknown property {prop}"))?;
            let c: Case = serde_json::from_value(case.clone()).map_err(|e| e.to_string())?;
            Ok(exec_case(&c, p).violation)
        }
        other => Err(format!("unknown engine {other}")),
    }
}

pub fn write_evidence(ctx: &Ctx, out: &Outcome, wall_s: f64) -> String {
    let path = format!("{}/evidence/{}.json", ctx.verif_dir, ctx.id);
    let _ = std::fs::create_dir_all(format!("{}/evidence", ctx.verif_dir));
    let mut cov = out.coverage.clone();
    cov.entry("evaluations").or_insert(json!(0));
    cov.entry("distinct_nontrivial").or_insert(json!(0));
    cov.entry("rule").or_insert(json!(""));
    cov.entry("samples").or_insert(json!([]));
    let body = json!({
        "property_id": ctx.id,
        "tier": if ctx.tier == Tier::Quick { "quick" } else { "thorough" },
        "seed": ctx.seed,
        "level": out.level,
        "coverage": Value::Object(cov),
        "assumptions": out.assumptions,
        "wall_s": wall_s,
        "violations": out.violations.len(),
        "build": if cfg!(feature = "nostd") { "no_std (hashbrown+libm)" } else { "std" },
    });
    let _ = std::fs::write(&path, serde_json::to_string_pretty(&body).unwrap());
    path
}
