//! Runners that drive several cache instances: C13 (metamorphic insertion of read-only
//! calls), C16 (clone: identical then independent), C17 (hasher independence).

use crate::gen::*;
use crate::inst::*;
use crate::interp::*;
use crate::model::*;
use crate::ops::*;
use crate::sut::*;
use proptest::prelude::*;
use proptest::strategy::BoxedStrategy;
use serde::{Deserialize, Serialize};
use std::panic::{catch_unwind, AssertUnwindSafe};

/// results are compared exactly, except Debug text (its format is not part of any property)
fn same_out(a: &Out, b: &Out) -> bool {
    matches!((a, b), (Out::Text(_), Out::Text(_))) || a == b
}

fn vio(prop: &'static str, step: usize, kind: Kind, op: &Op, class: &str, msg: String) -> Violation {
    Violation { prop, step, msg, sig: sig(kind, op, class) }
}

macro_rules! guarded {
    ($rep:expr, $e:expr) => {
        match catch_unwind(AssertUnwindSafe(|| $e)) {
            Ok(v) => v,
            Err(_) => {
                $rep.aborted_by_panic = Some(take_last_panic().unwrap_or_default());
                return $rep;
            }
        }
    };
}

// ------------------------------------------------------------------------------ C13

#[derive(Clone, Debug, Serialize, Deserialize)]
pub struct C13Case {
    pub case: Case,
    /// (position in the history before which the call is inserted, read-only call)
    pub ins: Vec<(usize, Op)>,
}

pub fn read_only_op(kind: Kind, a: u16, cap: usize) -> BoxedStrategy<Op> {
    let k = || (0..a.max(1)).boxed();
    let mut v: Vec<(u32, BoxedStrategy<Op>)> = vec![
        (8, (k(), any::<bool>()).prop_map(|(k, b)| Op::Peek(k, b)).boxed()),
        (5, (k(), any::<bool>()).prop_map(|(k, b)| Op::PeekMut(k, b, false)).boxed()),
        (5, (k(), any::<bool>()).prop_map(|(k, b)| Op::Contains(k, b)).boxed()),
        (3, prop_oneof![Just(Op::Len), Just(Op::Cap), Just(Op::IsEmpty), Just(Op::Lens)].boxed()),
    ];
    if kind.is_lru() {
        v.push((
            10,
            prop_oneof![
                Just(Op::GetMru),
                Just(Op::PeekLru),
                Just(Op::PeekMru),
                Just(Op::PeekLruMut(false)),
                Just(Op::PeekMruMut(false)),
                Just(Op::Debug)
            ]
            .boxed(),
        ));
    }
    if kind == Kind::TwoQ {
        v.push((1, Just(Op::Debug).boxed()));
    }
    if kind == Kind::Seg {
        v.push((10, (0u8..2, any::<bool>(), any::<bool>()).prop_map(|(seg, mru, mutable)| Op::SegPeek { seg, mru, mutable, write: false }).boxed()));
    }
    if kind.has_iters() {
        let nl = kind.n_lists() as u8;
        let nf: u8 = if kind.is_lru() { 12 } else { 10 };
        v.push((
            10,
            (0..nl, 0..nf, prop::collection::vec(any::<bool>(), 0..=cap.min(8) + 2), prop_oneof![Just(255u8), 0u8..6], any::<u8>())
                .prop_map(|(list, fam, pat, clone_at, fin)| Op::Iter { list, fam, pat, clone_at, write: false, fin })
                .boxed(),
        ));
    }
    proptest::strategy::Union::new_weighted(v).boxed()
}

pub fn c13_strategy(p: &Profile) -> BoxedStrategy<C13Case> {
    case_strategy(p)
        .prop_flat_map(|case| {
            let n = case.ops.len();
            let cap = case.cfg.total_cap(case.kind);
            let ins = prop::collection::vec((0..=n, read_only_op(case.kind, case.alphabet, cap)), 1..=6);
            (Just(case), ins).prop_map(|(case, mut ins)| {
                ins.sort_by_key(|x| x.0);
                C13Case { case, ins }
            })
        })
        .boxed()
}

pub fn run_c13<K: KeyLike>(t: &C13Case) -> CaseReport {
    reset_case();
    let mut rep = CaseReport::default();
    let case = &t.case;
    let kind = case.kind;
    let p = "C13";
    let mut a = match guarded!(rep, Sut::<K>::build(kind, &case.cfg)) {
        Ok(s) => s,
        Err(e) => {
            rep.unbuildable = Some(e);
            return rep;
        }
    };
    // B: a clone taken right after construction where the kind is Clone (same key hasher and
    // sketch seeds), else a second construction
    let mut b = match guarded!(rep, a.try_clone()) {
        Some(b) => b,
        None => match guarded!(rep, Sut::<K>::build(kind, &case.cfg)) {
            Ok(s) => s,
            Err(e) => {
                rep.unbuildable = Some(e);
                return rep;
            }
        },
    };
    let mut model = Model::new(kind, &case.cfg);
    let mut model_ok = true;
    let mut targeted_non_mru = false;
    let mut evicted_after = false;
    let mut ins_ix = 0usize;
    let n = case.ops.len();
    for i in 0..=n {
        // inserted read-only calls before op i
        while ins_ix < t.ins.len() && t.ins[ins_ix].0 <= i {
            let rop = &t.ins[ins_ix].1;
            ins_ix += 1;
            if !rop.supported(kind) || !rop.is_read_only() {
                continue;
            }
            let vb = guarded!(rep, b.view());
            let hit_non_mru = match rop.key() {
                Some(k) => matches!(vb.find(k), Some((li, pos, _)) if li < kind.n_resident_lists() && pos > 0),
                None => matches!(rop, Op::PeekLru | Op::PeekLruMut(_) | Op::SegPeek { mru: false, .. } | Op::Iter { .. }) && vb.lists.iter().any(|l| l.len() > 1),
            };
            let _ = guarded!(rep, b.apply(rop, 100_000 + ins_ix));
            let va = guarded!(rep, b.view());
            if va != vb {
                rep.violation = Some(vio(p, i, kind, rop, "read-only-changed-state", format!("read-only call {rop:?} inserted before step {i} changed the state: before {:?} (p={}, estimator changed: {}) after {:?} (p={})", vb.lists, vb.p, vb.est != va.est, va.lists, va.p)));
                return rep;
            }
            if hit_non_mru {
                targeted_non_mru = true;
                rep.stats.hit(Ev::ReadOnlyOnNonMru);
            }
        }
        if i == n {
            break;
        }
        let op = &case.ops[i];
        if !op.supported(kind) {
            continue;
        }
        rep.steps = i + 1;
        if model_ok {
            let ev0 = rep.stats.get(Ev::Eviction) + rep.stats.get(Ev::VictimRecent) + rep.stats.get(Ev::VictimFrequent);
            let est = |x: u16, y: u16| a.estimate(x).unwrap_or(0) < a.estimate(y).unwrap_or(0);
            let _ = model.apply(op, i, &est, &mut rep.stats, 0);
            let ev1 = rep.stats.get(Ev::Eviction) + rep.stats.get(Ev::VictimRecent) + rep.stats.get(Ev::VictimFrequent);
            if ev1 > ev0 && targeted_non_mru {
                evicted_after = true;
            }
        }
        let ra = guarded!(rep, a.apply(op, i));
        let rb = guarded!(rep, b.apply(op, i));
        if !same_out(&ra, &rb) {
            rep.violation = Some(vio(p, i, kind, op, "later-result-differs", format!("step {i} {op:?}: result {:?} in the plain history, {:?} in the history with read-only calls inserted ({:?})", ra, rb, t.ins)));
            return rep;
        }
        let va = guarded!(rep, a.view());
        let vb = guarded!(rep, b.view());
        if va != vb {
            rep.violation = Some(vio(p, i, kind, op, "later-state-differs", format!("step {i} {op:?}: state {:?} p={} in the plain history, {:?} p={} with read-only calls inserted ({:?}); estimator differs: {}", va.lists, va.p, vb.lists, vb.p, t.ins, va.est != vb.est)));
            return rep;
        }
        if model_ok {
            // keep the (classification-only) model in sync; stop using it once it disagrees
            let ml = model.lists();
            for li in 0..kind.n_resident_lists() {
                if *ml[li] != va.lists[li] {
                    model_ok = false;
                }
            }
            if kind == Kind::Arc && model_ok && !model.reconcile_arc_ghosts(&va.lists) {
                model_ok = false;
            }
        }
    }
    rep.nontrivial = targeted_non_mru && evicted_after;
    rep
}

// ------------------------------------------------------------------------------ C16

#[derive(Clone, Debug, Serialize, Deserialize)]
pub struct C16Case {
    pub case: Case,
    pub lock: Vec<Op>,
    pub diverge: Vec<Op>,
    /// true: the original is mutated/dropped and the clone observed; false: the other way round
    pub mutate_original: bool,
}

pub fn c16_strategy(p: &Profile) -> BoxedStrategy<C16Case> {
    let p2 = p.clone();
    case_strategy(p)
        .prop_flat_map(move |case| {
            let cap = case.cfg.total_cap(case.kind);
            let ops = || prop::collection::vec(op_strategy(case.kind, case.alphabet, cap, &p2), 0..=25);
            (Just(case.clone()), ops(), ops(), any::<bool>()).prop_map(|(case, lock, diverge, mutate_original)| C16Case { case, lock, diverge, mutate_original })
        })
        .boxed()
}

pub fn run_c16<K: KeyLike>(t: &C16Case) -> CaseReport {
    reset_case();
    let mut rep = CaseReport::default();
    let case = &t.case;
    let kind = case.kind;
    let p = "C16";
    let dummy = Op::CloneDrop;
    let mut a = match guarded!(rep, Sut::<K>::build(kind, &case.cfg)) {
        Ok(s) => s,
        Err(e) => {
            rep.unbuildable = Some(e);
            return rep;
        }
    };
    let mut model = Model::new(kind, &case.cfg);
    let mut model_ok = true;
    let mut step = 0usize;
    for op in case.ops.iter() {
        if !op.supported(kind) {
            continue;
        }
        step += 1;
        if model_ok {
            let est = |x: u16, y: u16| a.estimate(x).unwrap_or(0) < a.estimate(y).unwrap_or(0);
            let _ = model.apply(op, step, &est, &mut rep.stats, 0);
        }
        let _ = guarded!(rep, a.apply(op, step));
        if model_ok && model.resident_len() != a.len() {
            model_ok = false;
        }
    }
    rep.steps = step;
    let reordered = rep.stats.get(Ev::Reorder) + rep.stats.get(Ev::Promotion) > 0;
    let va = guarded!(rep, a.view());
    let n_at_clone = va.resident_len(kind);
    if let Some(id) = a.cb {
        let _ = take_cb_log(id);
    }
    // the clone is taken either by `clone()` or by `clone_from()` into an existing cache of
    // the same kind with another configuration and other contents
    let mut b = if t.diverge.len() % 3 == 1 {
        let mut other_cfg = case.cfg.clone();
        other_cfg.a = other_cfg.a % 5 + 1;
        other_cfg.b = other_cfg.b % 3 + 1;
        other_cfg.c = other_cfg.c % 3 + 2;
        // (half of the targets get a much bigger sample window: a doorkeeper of another size)
        other_cfg.samples = if t.diverge.len() % 2 == 0 { other_cfg.samples % 7 + 1 } else { 700 + other_cfg.samples * 13 };
        let mut target = match guarded!(rep, Sut::<K>::build(kind, &other_cfg)) {
            Ok(s) => s,
            Err(_) => return rep,
        };
        for (j, op) in t.lock.iter().take(6).enumerate() {
            if op.supported(kind) && !matches!(op, Op::CloneSwap | Op::CloneDrop) {
                let _ = guarded!(rep, target.apply(op, 9000 + j));
            }
        }
        if let Some(id) = target.cb {
            let _ = take_cb_log(id);
        }
        if !guarded!(rep, target.clone_from_other(&a)) {
            return rep;
        }
        if a.cb.is_some() && target.cb.is_none() {
            rep.violation = Some(Violation { prop: "C16", step: 0, msg: format!("after `target.clone_from(&source)` the target ({:?}) does not carry a clone of the source's eviction callback (the callback was not cloned at all): it is not a copy of the source", kind), sig: format!("{}/clone_from/callback-not-cloned", kind.short()) });
            return rep;
        }
        if let Some(id) = a.cb {
            // entries the target held before are released by clone_from; that may or may not
            // count as "leaving the cache" for the callback: not judged
            let _ = take_cb_log(id);
        }
        if let Some(id) = target.cb {
            let _ = take_cb_log(id);
        }
        rep.stats.hit(Ev::CloneNonEmpty);
        target
    } else {
        match guarded!(rep, a.try_clone()) {
            Some(b) => b,
            None => return rep,
        }
    };
    // (a) identical at that moment
    let vb = guarded!(rep, b.view());
    if va != vb {
        rep.violation = Some(vio(p, step, kind, &dummy, "clone-differs", format!("after {:?} the clone differs from the original: original {:?} p={}, clone {:?} p={}; estimator state equal: {}", case.ops, va.lists, va.p, vb.lists, vb.p, va.est == vb.est)));
        return rep;
    }
    if a.cap() != b.cap() || a.len() != b.len() || a.is_empty() != b.is_empty() || a.public_caps() != b.public_caps() {
        rep.violation = Some(vio(p, step, kind, &dummy, "clone-capacity", format!("clone reports cap {} len {} caps {:?}, original cap {} len {} caps {:?}", b.cap(), b.len(), b.public_caps(), a.cap(), a.len(), a.public_caps())));
        return rep;
    }
    if let (Some(ia), Some(ib)) = (a.cb, b.cb) {
        let (la, lb) = (take_cb_log(ia), take_cb_log(ib));
        if !la.is_empty() || !lb.is_empty() {
            rep.violation = Some(vio(p, step, kind, &dummy, "clone-callback", format!("cloning invoked eviction callbacks: original {:?} clone {:?}", la, lb)));
            return rep;
        }
    }
    // (b) lock-step: the same operations give the same results and states
    let mut evicted_in_suffix = false;
    for op in t.lock.iter() {
        if !op.supported(kind) || matches!(op, Op::CloneSwap | Op::CloneDrop) {
            continue;
        }
        step += 1;
        let before = guarded!(rep, a.view());
        let ra = guarded!(rep, a.apply(op, step));
        let rb = guarded!(rep, b.apply(op, step));
        let (xa, xb) = (guarded!(rep, a.view()), guarded!(rep, b.view()));
        if before.all().any(|e| xa.find(e.0).is_none()) {
            evicted_in_suffix = true;
        }
        if !same_out(&ra, &rb) || xa != xb {
            rep.violation = Some(vio(p, step, kind, op, "lockstep-differs", format!("lock-step {op:?} after the clone: original -> {:?} state {:?} p={}, clone -> {:?} state {:?} p={}", ra, xa.lists, xa.p, rb, xb.lists, xb.p)));
            return rep;
        }
        if let (Some(ia), Some(ib)) = (a.cb, b.cb) {
            // zero-sized callbacks share one log: original's entries come first, then the clone's
            let (la, lb) = if ia == ib {
                let mut all = take_cb_log(ia);
                let half = all.len() / 2;
                let second = all.split_off(half);
                (all, second)
            } else {
                (take_cb_log(ia), take_cb_log(ib))
            };
            if la != lb {
                rep.violation = Some(vio(p, step, kind, op, "lockstep-callbacks", format!("lock-step {op:?}: callback log of the original {:?}, of the clone {:?}", la, lb)));
                return rep;
            }
        }
    }
    // (c) independence: mutate and drop one, the other must not notice
    let (mut mutated, mut observed) = if t.mutate_original { (a, b) } else { (b, a) };
    let snap = guarded!(rep, observed.view());
    if let Some(id) = observed.cb {
        let _ = take_cb_log(id);
    }
    for op in t.diverge.iter() {
        if !op.supported(kind) {
            continue;
        }
        step += 1;
        let _ = guarded!(rep, mutated.apply(op, step));
        let now = guarded!(rep, observed.view());
        if now != snap {
            rep.violation = Some(vio(p, step, kind, op, "not-independent", format!("{op:?} on one of (original, clone) changed the other: {:?} -> {:?}", snap.lists, now.lists)));
            return rep;
        }
    }
    guarded!(rep, drop(mutated));
    let now = guarded!(rep, observed.view());
    if now != snap {
        rep.violation = Some(vio(p, step, kind, &dummy, "drop-not-independent", format!("dropping one of (original, clone) changed the other: {:?} -> {:?}", snap.lists, now.lists)));
        return rep;
    }
    if let Err(e) = observed.audit() {
        rep.violation = Some(vio(p, step, kind, &dummy, "audit-after-drop", format!("after dropping its sibling: {e}")));
        return rep;
    }
    if let Some(id) = observed.cb.filter(|id| *id != ZST_CB) {
        let l = take_cb_log(id);
        if !l.is_empty() {
            rep.violation = Some(vio(p, step, kind, &dummy, "callback-not-independent", format!("operations on the sibling invoked this cache's callback: {:?}", l)));
            return rep;
        }
    }
    // the survivor is fully usable
    for op in t.lock.iter().chain(t.diverge.iter()) {
        if !op.supported(kind) {
            continue;
        }
        step += 1;
        let _ = guarded!(rep, observed.apply(op, step));
        if let Err(e) = observed.audit() {
            rep.violation = Some(vio(p, step, kind, op, "audit-after-drop", format!("survivor after {op:?}: {e}")));
            return rep;
        }
    }
    guarded!(rep, drop(observed));
    let bad = take_bad();
    if !bad.is_empty() {
        rep.violation = Some(vio(p, step, kind, &dummy, "shared-object", format!("{}", bad.join("; "))));
        return rep;
    }
    rep.steps = step;
    rep.nontrivial = n_at_clone >= 3 && reordered && evicted_in_suffix;
    rep
}

// ------------------------------------------------------------------------------ C17

pub const C17_HASHER_SETS: [[HSpec; 4]; 6] = [
    [HSpec::Fnv(11), HSpec::Fnv(12), HSpec::Fnv(13), HSpec::Fnv(14)],
    [HSpec::Fnv(0xdead_beef), HSpec::Ident, HSpec::Zero, HSpec::Fnv(5)],
    [HSpec::Ident, HSpec::Ident, HSpec::Ident, HSpec::Ident],
    [HSpec::Zero, HSpec::Zero, HSpec::Zero, HSpec::Zero],
    [HSpec::Random, HSpec::Random, HSpec::Random, HSpec::Random],
    [HSpec::Random, HSpec::Zero, HSpec::Random, HSpec::Ident],
];

pub fn run_c17<K: KeyLike>(case: &Case) -> CaseReport {
    reset_case();
    let mut rep = CaseReport::default();
    let kind = case.kind;
    let p = "C17";
    let mut suts: Vec<Sut<K>> = vec![];
    for hs in C17_HASHER_SETS.iter() {
        let mut cfg = case.cfg.clone();
        cfg.hs = *hs;
        match guarded!(rep, Sut::<K>::build(kind, &cfg)) {
            Ok(s) => suts.push(s),
            Err(e) => {
                rep.unbuildable = Some(e);
                return rep;
            }
        }
    }
    let mut model = Model::new(kind, &case.cfg);
    let mut model_ok = true;
    let mut cloned_ge3 = false;
    for (i, op) in case.ops.iter().enumerate() {
        if !op.supported(kind) {
            continue;
        }
        rep.steps = i + 1;
        if matches!(op, Op::CloneSwap | Op::CloneDrop) && suts[0].len() >= 3 {
            cloned_ge3 = true;
        }
        if model_ok {
            let s0 = &suts[0];
            let est = |x: u16, y: u16| s0.estimate(x).unwrap_or(0) < s0.estimate(y).unwrap_or(0);
            let _ = model.apply(op, i, &est, &mut rep.stats, 0);
        }
        let mut first: Option<(Out, View)> = None;
        let mut first_logs: (Vec<(u16, u32)>, Vec<(bool, u32)>) = (vec![], vec![]);
        let is_clone_op = matches!(op, Op::CloneSwap | Op::CloneDrop);
        for (j, s) in suts.iter_mut().enumerate() {
            set_drop_log(true);
            let r = guarded!(rep, s.apply(op, i));
            let drops = take_drop_log();
            set_drop_log(false);
            let cbl = s.cb.map(take_cb_log).unwrap_or_default();
            // the order in which entries leave (callback order, and the order in which the
            // departing keys/values are released) is part of the eviction choice; dropping a
            // whole cache (clone ops) is not an eviction and is not compared
            if j == 0 {
                first_logs = (cbl, drops);
            } else if cbl != first_logs.0 || (!is_clone_op && drops != first_logs.1) {
                rep.violation = Some(vio(
                    p,
                    i,
                    kind,
                    op,
                    "hasher-dependent-departure-order",
                    format!("step {i} {op:?}: with hashers {:?} callbacks {:?} / releases {:?}; with hashers {:?} callbacks {:?} / releases {:?}", C17_HASHER_SETS[0], first_logs.0, first_logs.1, C17_HASHER_SETS[j], cbl, drops),
                ));
                return rep;
            }
            let mut v = guarded!(rep, s.view());
            if kind == Kind::Wtl && j > 0 {
                // the estimator dump contains nothing hasher dependent (same key hasher, same
                // pinned sketch seed), so it is compared too
            }
            if j == 0 {
                first = Some((r, v));
            } else {
                let (r0, v0) = first.as_ref().unwrap();
                if kind == Kind::Wtl && case.cfg.sketch_seed.is_none() {
                    v.est = v0.est.clone();
                }
                if !same_out(&r, r0) || &v != v0 {
                    rep.violation = Some(vio(
                        p,
                        i,
                        kind,
                        op,
                        "hasher-dependent",
                        format!("step {i} {op:?}: with hashers {:?} -> {:?} state {:?} p={}; with hashers {:?} -> {:?} state {:?} p={}", C17_HASHER_SETS[0], r0, v0.lists, v0.p, C17_HASHER_SETS[j], r, v.lists, v.p),
                    ));
                    return rep;
                }
            }
        }
        if model_ok && model.resident_len() != suts[0].len() {
            model_ok = false;
        }
    }
    let ev = rep.stats.get(Ev::Eviction) + rep.stats.get(Ev::VictimRecent) + rep.stats.get(Ev::VictimFrequent) > 0;
    rep.nontrivial = ev && (cloned_ge3 || !kind.cloneable());
    rep
}
