//! Global allocator wrapper: per-thread live-block counters (C04), poison fill of fresh and
//! freed blocks and a per-thread quarantine ring (C03, C18).
//!
//! * fresh blocks are filled with 0xAA, freed blocks with 0xDE, so reading never-initialised
//!   or freed node memory yields an object whose `magic` is not LIVE (see inst.rs);
//! * freed small blocks are parked in a ring and their 0xDE pattern is re-verified when they
//!   leave it (write-after-free);
//! * counters are thread-local so the 16 workers do not interfere.
//!
//! With feature `plain-alloc` nothing here is installed (ASan / Miri / libFuzzer builds).

use std::alloc::{GlobalAlloc, Layout, System};
use std::cell::{Cell, UnsafeCell};

pub struct VAlloc;

const QN: usize = 512;
const FILL_MAX: usize = 1 << 16;
const QUAR_MAX: usize = 1024;

#[derive(Clone, Copy)]
struct QEnt {
    ptr: usize,
    size: usize,
    align: usize,
}

struct Quar {
    ring: UnsafeCell<[QEnt; QN]>,
}

thread_local! {
    /// offset (1..=8) given to the next align-1 allocations: 8 keeps them word aligned, 1..=7
    /// hands out addresses that are NOT word aligned (legal for align-1 requests; bump / arena
    /// allocators do it): address independence (C17) and byte-buffer code using `align_to`
    static MISALIGN: Cell<u8> = const { Cell::new(8) };
    static QDOUBLE: Cell<u64> = const { Cell::new(0) };
    static LIVE_BLOCKS: Cell<i64> = const { Cell::new(0) };
    static TOTAL_ALLOCS: Cell<u64> = const { Cell::new(0) };
    static QUAR_ON: Cell<bool> = const { Cell::new(false) };
    static QPOS: Cell<usize> = const { Cell::new(0) };
    static QDAMAGE: Cell<u64> = const { Cell::new(0) };
    static QUAR: Quar = const { Quar { ring: UnsafeCell::new([QEnt { ptr: 0, size: 0, align: 1 }; QN]) } };
}

#[inline]
fn fill_len(n: usize) -> usize {
    if n > FILL_MAX {
        4096
    } else {
        n
    }
}

unsafe fn release(e: QEnt) {
    if e.ptr == 0 {
        return;
    }
    let p = e.ptr as *mut u8;
    let n = fill_len(e.size);
    let mut damaged = false;
    for i in 0..n {
        if *p.add(i) != 0xDE {
            damaged = true;
            break;
        }
    }
    if damaged {
        let _ = QDAMAGE.try_with(|d| d.set(d.get() + 1));
    }
    System.dealloc(p, Layout::from_size_align_unchecked(e.size, e.align));
}

/// align-1 blocks live inside an 8-aligned block that is 8 bytes larger; the byte in front of
/// the user pointer holds the offset (1..=8), so `dealloc` finds the real block whatever the
/// setting was when it was allocated
#[inline]
fn shifted(l: &Layout) -> bool {
    l.align() == 1 && l.size() > 0 && l.size() < (isize::MAX as usize) - 64
}

unsafe impl GlobalAlloc for VAlloc {
    unsafe fn alloc(&self, l: Layout) -> *mut u8 {
        if shifted(&l) {
            let base = System.alloc(Layout::from_size_align_unchecked(l.size() + 8, 8));
            if base.is_null() {
                return base;
            }
            let off = MISALIGN.try_with(|m| m.get()).unwrap_or(8).clamp(1, 8) as usize;
            std::ptr::write_bytes(base, 0xAA, fill_len(l.size() + 8));
            *base.add(off - 1) = off as u8;
            let _ = LIVE_BLOCKS.try_with(|c| c.set(c.get() + 1));
            let _ = TOTAL_ALLOCS.try_with(|c| c.set(c.get() + 1));
            return base.add(off);
        }
        let p = System.alloc(l);
        if !p.is_null() {
            std::ptr::write_bytes(p, 0xAA, fill_len(l.size()));
            let _ = LIVE_BLOCKS.try_with(|c| c.set(c.get() + 1));
            let _ = TOTAL_ALLOCS.try_with(|c| c.set(c.get() + 1));
        }
        p
    }

    unsafe fn alloc_zeroed(&self, l: Layout) -> *mut u8 {
        if shifted(&l) {
            let p = self.alloc(l);
            if !p.is_null() {
                std::ptr::write_bytes(p, 0, l.size());
            }
            return p;
        }
        let p = System.alloc_zeroed(l);
        if !p.is_null() {
            let _ = LIVE_BLOCKS.try_with(|c| c.set(c.get() + 1));
            let _ = TOTAL_ALLOCS.try_with(|c| c.set(c.get() + 1));
        }
        p
    }

    unsafe fn dealloc(&self, p: *mut u8, l: Layout) {
        let (p, l) = if shifted(&l) {
            let off = *p.sub(1) as usize;
            if !(1..=8).contains(&off) {
                // the header is gone: this block was freed before (0xDE) or its header was overwritten
                let _ = QDOUBLE.try_with(|d| d.set(d.get() + 1));
                return;
            }
            (p.sub(off), Layout::from_size_align_unchecked(l.size() + 8, 8))
        } else {
            (p, l)
        };
        // a block that is already completely poisoned is being freed a second time: count it and
        // do not hand it to the system allocator again
        if l.size() >= 16 && l.size() <= QUAR_MAX {
            let n = l.size().min(64);
            let mut all = true;
            for i in 0..n {
                if *p.add(i) != 0xDE {
                    all = false;
                    break;
                }
            }
            if all && QUAR_ON.try_with(|q| q.get()).unwrap_or(false) {
                let _ = QDOUBLE.try_with(|d| d.set(d.get() + 1));
                return;
            }
        }
        let _ = LIVE_BLOCKS.try_with(|c| c.set(c.get() - 1));
        std::ptr::write_bytes(p, 0xDE, fill_len(l.size()));
        let on = QUAR_ON.try_with(|q| q.get()).unwrap_or(false);
        if on && l.size() <= QUAR_MAX && l.size() > 0 {
            let done = QUAR.try_with(|q| {
                let ring = &mut *q.ring.get();
                let pos = QPOS.with(|c| {
                    let v = c.get();
                    c.set((v + 1) % QN);
                    v
                });
                let old = ring[pos];
                ring[pos] = QEnt { ptr: p as usize, size: l.size(), align: l.align() };
                release(old);
            });
            if done.is_ok() {
                return;
            }
        }
        System.dealloc(p, l);
    }
}

#[cfg(not(feature = "plain-alloc"))]
#[global_allocator]
static GLOBAL: VAlloc = VAlloc;

/// true when the tracking allocator is installed in this build
pub const TRACKING: bool = cfg!(not(feature = "plain-alloc"));

pub fn live_blocks() -> i64 {
    LIVE_BLOCKS.with(|c| c.get())
}

pub fn total_allocs() -> u64 {
    TOTAL_ALLOCS.with(|c| c.get())
}

pub fn set_quarantine(on: bool) {
    if !on {
        flush_quarantine();
    }
    QUAR_ON.with(|q| q.set(on));
}

/// release every quarantined block (verifying its pattern); returns the damage counter
pub fn flush_quarantine() -> u64 {
    QUAR.with(|q| unsafe {
        let ring = &mut *q.ring.get();
        for e in ring.iter_mut() {
            let old = *e;
            *e = QEnt { ptr: 0, size: 0, align: 1 };
            release(old);
        }
    });
    QDAMAGE.with(|d| d.get())
}

pub fn take_quarantine_damage() -> u64 {
    QDAMAGE.with(|d| d.replace(0))
}

/// offset of the next align-1 allocations of this thread (8 = word aligned, 1..=7 = not)
pub fn set_misalign(off: u8) {
    MISALIGN.with(|m| m.set(if off == 0 { 8 } else { off.clamp(1, 8) }));
}

/// blocks that were freed twice since the last call (only detected while the quarantine is on)
pub fn take_double_frees() -> u64 {
    QDOUBLE.with(|d| d.replace(0))
}
