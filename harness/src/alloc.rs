//! Global allocator wrapper: per-thread live-block counters (C04), poison fill of fresh and
//! freed blocks and a per-thread quarantine ring (C03, C18).
//!
//! * fresh blocks are filled with 0xAA, freed blocks with 0xDE, so reading never-initialised
//!   or freed node memory yields an object whose `magic` is not LIVE (see inst.rs);
//! * freed small blocks are parked in a ring and their 0xDE pattern is re-verified when they
//!   leave it (write-after-free);
//! * counters are thread-local so the 16 workers do not interfere.
//!
//! With feature `plain-alloc` nothing here is installed (ASan / Miri / libFuzzer builds).

use std::alloc::{GlobalAlloc, Layout, System};
use std::cell::{Cell, UnsafeCell};

pub struct VAlloc;

const QN: usize = 512;
const FILL_MAX: usize = 1 << 16;
const QUAR_MAX: usize = 1024;

#[derive(Clone, Copy)]
struct QEnt {
    ptr: usize,
    size: usize,
    align: usize,
}

struct Quar {
    ring: UnsafeCell<[QEnt; QN]>,
}

thread_local! {
    static LIVE_BLOCKS: Cell<i64> = const { Cell::new(0) };
    static TOTAL_ALLOCS: Cell<u64> = const { Cell::new(0) };
    static QUAR_ON: Cell<bool> = const { Cell::new(false) };
    static QPOS: Cell<usize> = const { Cell::new(0) };
    static QDAMAGE: Cell<u64> = const { Cell::new(0) };
    static QUAR: Quar = const { Quar { ring: UnsafeCell::new([QEnt { ptr: 0, size: 0, align: 1 }; QN]) } };
}

#[inline]
fn fill_len(n: usize) -> usize {
    if n > FILL_MAX {
        4096
    } else {
        n
    }
}

unsafe fn release(e: QEnt) {
    if e.ptr == 0 {
        return;
    }
    let p = e.ptr as *mut u8;
    let n = fill_len(e.size);
    let mut damaged = false;
    for i in 0..n {
        if *p.add(i) != 0xDE {
            damaged = true;
            break;
        }
    }
    if damaged {
        let _ = QDAMAGE.try_with(|d| d.set(d.get() + 1));
    }
    System.dealloc(p, Layout::from_size_align_unchecked(e.size, e.align));
}

unsafe impl GlobalAlloc for VAlloc {
    unsafe fn alloc(&self, l: Layout) -> *mut u8 {
        let p = System.alloc(l);
        if !p.is_null() {
            std::ptr::write_bytes(p, 0xAA, fill_len(l.size()));
            let _ = LIVE_BLOCKS.try_with(|c| c.set(c.get() + 1));
            let _ = TOTAL_ALLOCS.try_with(|c| c.set(c.get() + 1));
        }
        p
    }

    unsafe fn alloc_zeroed(&self, l: Layout) -> *mut u8 {
        let p = System.alloc_zeroed(l);
        if !p.is_null() {
            let _ = LIVE_BLOCKS.try_with(|c| c.set(c.get() + 1));
            let _ = TOTAL_ALLOCS.try_with(|c| c.set(c.get() + 1));
        }
        p
    }

    unsafe fn dealloc(&self, p: *mut u8, l: Layout) {
        let _ = LIVE_BLOCKS.try_with(|c| c.set(c.get() - 1));
        std::ptr::write_bytes(p, 0xDE, fill_len(l.size()));
        let on = QUAR_ON.try_with(|q| q.get()).unwrap_or(false);
        if on && l.size() <= QUAR_MAX && l.size() > 0 {
            let done = QUAR.try_with(|q| {
                let ring = &mut *q.ring.get();
                let pos = QPOS.with(|c| {
                    let v = c.get();
                    c.set((v + 1) % QN);
                    v
                });
                let old = ring[pos];
                ring[pos] = QEnt { ptr: p as usize, size: l.size(), align: l.align() };
                release(old);
            });
            if done.is_ok() {
                return;
            }
        }
        System.dealloc(p, l);
    }
}

#[cfg(not(feature = "plain-alloc"))]
#[global_allocator]
static GLOBAL: VAlloc = VAlloc;

/// true when the tracking allocator is installed in this build
pub const TRACKING: bool = cfg!(not(feature = "plain-alloc"));

pub fn live_blocks() -> i64 {
    LIVE_BLOCKS.with(|c| c.get())
}

pub fn total_allocs() -> u64 {
    TOTAL_ALLOCS.with(|c| c.get())
}

pub fn set_quarantine(on: bool) {
    if !on {
        flush_quarantine();
    }
    QUAR_ON.with(|q| q.set(on));
}

/// release every quarantined block (verifying its pattern); returns the damage counter
pub fn flush_quarantine() -> u64 {
    QUAR.with(|q| unsafe {
        let ring = &mut *q.ring.get();
        for e in ring.iter_mut() {
            let old = *e;
            *e = QEnt { ptr: 0, size: 0, align: 1 };
            release(old);
        }
    });
    QDAMAGE.with(|d| d.get())
}

pub fn take_quarantine_damage() -> u64 {
    QDAMAGE.with(|d| d.replace(0))
}
