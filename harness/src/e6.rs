//! E6 — argument grid for constructors, builders and conversions (C05): the cartesian
//! product of boundary values, enumerated completely, plus proptest-drawn tuples.
//! Oracle: no panic; a documented-invalid argument gives an `Err` of a matching variant.

use crate::inst::take_last_panic;
use crate::interp::{panic_class, Violation};
use caches::lfu::{SampledLFU, TinyLFU, TinyLFUBuilder, TinyLFUError, WTinyLFUError};
use caches::lru::CacheError;
use caches::*;
use serde::{Deserialize, Serialize};
use std::collections::{BTreeMap, BTreeSet, BinaryHeap, LinkedList, VecDeque};
use std::panic::{catch_unwind, AssertUnwindSafe};

/// one constructor call; f64 arguments are kept as bit patterns so that NaN survives JSON
#[derive(Clone, Debug, Serialize, Deserialize, PartialEq, Eq, Hash)]
pub struct Call {
    pub ctor: String,
    pub sizes: Vec<usize>,
    pub floats: Vec<u64>,
}

impl Call {
    pub fn new(ctor: &str, sizes: &[usize], floats: &[f64]) -> Call {
        Call { ctor: ctor.to_string(), sizes: sizes.to_vec(), floats: floats.iter().map(|f| f.to_bits()).collect() }
    }
    pub fn f(&self, i: usize) -> f64 {
        f64::from_bits(self.floats[i])
    }
    pub fn describe(&self) -> String {
        format!("{}(sizes={:?}, floats={:?})", self.ctor, self.sizes, self.floats.iter().map(|b| f64::from_bits(*b)).collect::<Vec<_>>())
    }
}

#[derive(Clone, Debug, PartialEq)]
pub enum Res {
    Ok,
    Err(String),
    Panic(String, String),
}

pub const SIZES: [usize; 11] = [0, 1, 2, 3, 4, 5, 7, 8, 16, 100, 4096];
pub const SMALL_SIZES: [usize; 6] = [0, 1, 2, 3, 5, 100];
pub const SAMPLES: [usize; 5] = [0, 1, 2, 5, 64];

pub fn ratios() -> Vec<f64> {
    vec![
        f64::NAN,
        f64::NEG_INFINITY,
        -1.0,
        -0.0,
        0.0,
        5e-324,
        0.1,
        0.25,
        1.0 / 3.0,
        0.5,
        0.75,
        1.0 - f64::EPSILON,
        1.0,
        1.0 + f64::EPSILON,
        2.0,
        f64::INFINITY,
    ]
}
pub fn fps() -> Vec<f64> {
    vec![f64::NAN, -1.0, 0.0, 5e-324, 1e-12, 0.01, 0.5, 1.0 - f64::EPSILON, 1.0, 1.5]
}

fn ratio_invalid(r: f64) -> bool {
    r.is_nan() || r < 0.0 || r > 1.0
}
fn fp_invalid(r: f64) -> bool {
    r.is_nan() || r <= 0.0 || r >= 1.0
}

/// exercise a freshly constructed cache a little (must not panic either)
fn exercise<C: Cache<u64, u64>>(c: &mut C) {
    let n = (c.cap() as u64).min(40) + 2;
    for k in 0..n {
        c.put(k, k + 1000);
    }
    for k in 0..n {
        let _ = c.get(&k);
        let _ = c.peek(&(k + 1));
    }
    for k in 0..n {
        c.put(k, k + 2000);
    }
    let _ = c.remove(&0);
    let _ = c.contains(&1);
    let _ = (c.len(), c.cap(), c.is_empty());
    c.purge();
    c.put(1, 1);
}

fn ce(e: CacheError) -> String {
    match e {
        CacheError::InvalidSize(_) => "InvalidSize".into(),
        CacheError::InvalidRecentRatio(_) => "InvalidRecentRatio".into(),
        CacheError::InvalidGhostRatio(_) => "InvalidGhostRatio".into(),
    }
}
fn we(e: WTinyLFUError) -> String {
    match e {
        WTinyLFUError::InvalidCountMinWidth(_) => "InvalidCountMinWidth".into(),
        WTinyLFUError::InvalidSamples(_) => "InvalidSamples".into(),
        WTinyLFUError::InvalidWindowCacheSize(_) => "InvalidWindowCacheSize".into(),
        WTinyLFUError::InvalidProbationaryCacheSize(_) => "InvalidProbationaryCacheSize".into(),
        WTinyLFUError::InvalidProtectedCacheSize(_) => "InvalidProtectedCacheSize".into(),
        WTinyLFUError::InvalidFalsePositiveRatio(_) => "InvalidFalsePositiveRatio".into(),
        WTinyLFUError::Unknown => "Unknown".into(),
    }
}
fn te(e: TinyLFUError) -> String {
    match e {
        TinyLFUError::InvalidCountMinWidth(_) => "InvalidCountMinWidth".into(),
        TinyLFUError::InvalidSamples(_) => "InvalidSamples".into(),
        TinyLFUError::InvalidFalsePositiveRatio(_) => "InvalidFalsePositiveRatio".into(),
    }
}

#[derive(Clone)]
struct Cb;
impl OnEvictCallback for Cb {
    fn on_evict<K, V>(&self, _: &K, _: &V) {}
}

fn lru_res<E: OnEvictCallback, S: std::hash::BuildHasher>(r: Result<RawLRU<u64, u64, E, S>, CacheError>) -> Res {
    match r {
        Ok(mut c) => {
            exercise(&mut c);
            let _ = c.resize(0);
            c.put(9, 9);
            let _ = c.resize(3);
            c.put(9, 9);
            Res::Ok
        }
        Err(e) => Res::Err(ce(e)),
    }
}
macro_rules! cache_res {
    ($r:expr, $conv:ident) => {
        match $r {
            Ok(mut c) => {
                exercise(&mut c);
                Res::Ok
            }
            Err(e) => Res::Err($conv(e)),
        }
    };
}

fn pairs(kind: usize) -> Vec<(u64, u64)> {
    match kind {
        0 => vec![],
        1 => vec![(1, 10)],
        2 => vec![(1, 10), (1, 11), (2, 20), (1, 12)],
        _ => (0..9).map(|i| (i, i * 10)).collect(),
    }
}

/// run one constructor call (unguarded)
fn run_call(c: &Call) -> Res {
    let s = |i: usize| c.sizes[i];
    match c.ctor.as_str() {
        "RawLRU::new" => lru_res(RawLRU::<u64, u64>::new(s(0))),
        "RawLRU::with_hasher" => lru_res(RawLRU::<u64, u64, DefaultEvictCallback, _>::with_hasher(s(0), caches::DefaultHashBuilder::default())),
        "RawLRU::with_on_evict_cb" => lru_res(RawLRU::<u64, u64, Cb>::with_on_evict_cb(s(0), Cb)),
        "RawLRU::with_on_evict_cb_and_hasher" => lru_res(RawLRU::<u64, u64, Cb, _>::with_on_evict_cb_and_hasher(s(0), Cb, caches::DefaultHashBuilder::default())),
        "SegmentedCache::new" => cache_res!(SegmentedCache::<u64, u64>::new(s(0), s(1)), ce),
        "SegmentedCache::builder" => {
            let r: Result<SegmentedCache<u64, u64>, _> = SegmentedCache::<u64, u64>::builder(s(0), s(1)).finalize();
            cache_res!(r, ce)
        }
        "SegmentedCache::from_builder" => {
            let r: Result<SegmentedCache<u64, u64>, _> = SegmentedCache::from_builder(SegmentedCacheBuilder::default().set_probationary_size(s(0)).set_protected_size(s(1)));
            cache_res!(r, ce)
        }
        "TwoQueueCache::new" => cache_res!(TwoQueueCache::<u64, u64>::new(s(0)), ce),
        "TwoQueueCache::with_recent_ratio" => cache_res!(TwoQueueCache::<u64, u64>::with_recent_ratio(s(0), c.f(0)), ce),
        "TwoQueueCache::with_ghost_ratio" => cache_res!(TwoQueueCache::<u64, u64>::with_ghost_ratio(s(0), c.f(0)), ce),
        "TwoQueueCache::with_2q_parameters" => cache_res!(TwoQueueCache::<u64, u64>::with_2q_parameters(s(0), c.f(0), c.f(1)), ce),
        "TwoQueueCache::builder" => {
            let r: Result<TwoQueueCache<u64, u64>, _> = TwoQueueCache::<u64, u64>::builder(s(0)).set_recent_ratio(c.f(0)).set_ghost_ratio(c.f(1)).finalize();
            cache_res!(r, ce)
        }
        "TwoQueueCache::from_builder" => {
            let r: Result<TwoQueueCache<u64, u64>, _> = TwoQueueCache::from_builder(TwoQueueCacheBuilder::default().set_size(s(0)).set_recent_ratio(c.f(0)).set_ghost_ratio(c.f(1)));
            cache_res!(r, ce)
        }
        "TwoQueueCacheBuilder::new" => {
            let r: Result<TwoQueueCache<u64, u64>, _> = TwoQueueCacheBuilder::new(s(0)).finalize();
            cache_res!(r, ce)
        }
        "AdaptiveCache::new" => cache_res!(AdaptiveCache::<u64, u64>::new(s(0)), ce),
        "AdaptiveCache::builder" => {
            let r: Result<AdaptiveCache<u64, u64>, _> = AdaptiveCache::<u64, u64>::builder(s(0)).finalize();
            cache_res!(r, ce)
        }
        "AdaptiveCache::from_builder" => {
            let r: Result<AdaptiveCache<u64, u64>, _> = AdaptiveCache::from_builder(AdaptiveCacheBuilder::default().set_size(s(0)));
            cache_res!(r, ce)
        }
        "WTinyLFUCache::new" => cache_res!(WTinyLFUCache::<u64, u64>::new(s(0), s(1)), we),
        "WTinyLFUCache::with_sizes" => cache_res!(WTinyLFUCache::<u64, u64>::with_sizes(s(0), s(1), s(2), s(3)), we),
        "WTinyLFUCache::builder" => {
            let b: WTinyLFUCacheBuilder<u64> = WTinyLFUCache::<u64, u64>::builder();
            let r: Result<WTinyLFUCache<u64, u64>, _> = b
                .set_window_cache_size(s(0))
                .set_protected_cache_size(s(1))
                .set_probationary_cache_size(s(2))
                .set_samples(s(3))
                .set_false_positive_ratio(c.f(0))
                .finalize();
            cache_res!(r, we)
        }
        "WTinyLFUCache::from_builder" => {
            let b: WTinyLFUCacheBuilder<u64> = WTinyLFUCacheBuilder::new(s(0), s(1), s(2), s(3));
            let r: Result<WTinyLFUCache<u64, u64>, _> = WTinyLFUCache::from_builder(b.set_false_positive_ratio(c.f(0)));
            cache_res!(r, we)
        }
        "TinyLFU::new" | "TinyLFUBuilder" => {
            let r = if c.ctor == "TinyLFU::new" {
                TinyLFU::<u64>::new(s(0), s(1), c.f(0))
            } else {
                TinyLFU::<u64>::from_builder(TinyLFUBuilder::new(s(0), s(1)).set_false_positive_ratio(c.f(0)))
            };
            match r {
                Ok(mut t) => {
                    for h in [0u64, 1, 2, u64::MAX, 1 << 32, 1 << 63, 0xFFFF_FFFF_0000_0001] {
                        t.increment_hashed_key(h);
                        t.increment(&h);
                        let _ = t.estimate_hashed_key(h);
                        let _ = t.contains_hash(h);
                    }
                    t.increment_keys(&[&1, &2, &3]);
                    t.increment_hashed_keys(&[1, 2, u64::MAX]);
                    let _ = (t.lt(&1, &2), t.le(&1, &2), t.gt(&1, &2), t.ge(&1, &2), t.eq(&1, &2));
                    t.try_reset();
                    t.clear();
                    t.increment(&5);
                    Res::Ok
                }
                Err(e) => Res::Err(te(e)),
            }
        }
        "SampledLFU" => {
            let max_cost = c.sizes[0] as i64 - 1_000_000;
            let samples = s(1);
            let mut v: Vec<SampledLFU<u64>> = vec![SampledLFU::new(max_cost), SampledLFU::with_samples(max_cost, samples)];
            for t in v.iter_mut() {
                t.increment(&1, 5);
                t.increment_hashed_key(u64::MAX, -7);
                t.increment(&1, 9);
                let _ = t.update(&1, 3);
                let _ = t.update_hashed_key(77, 1);
                let _ = t.fill_sample(vec![]);
                let _ = t.fill_sample(vec![(1, 1), (2, 2)]);
                let _ = t.fill_sample(Vec::with_capacity(3));
                let _ = t.room_left(10);
                let _ = t.remove(&1);
                let _ = t.remove_hashed_key(12345);
                t.update_max_cost(3);
                t.clear();
                let _ = t.get_max_cost();
            }
            let mut a = SampledLFU::<u64, _, _>::with_hasher(max_cost, caches::DefaultHashBuilder::default());
            a.increment(&1, 1);
            let mut b = SampledLFU::<u64, _, _>::with_samples_and_hasher(max_cost, samples, caches::DefaultHashBuilder::default());
            b.increment(&1, 1);
            let _ = b.fill_sample(vec![]);
            let mut d = SampledLFU::<u64, caches::lfu::DefaultKeyHasher<u64>>::with_key_hasher(max_cost, Default::default());
            d.increment(&1, 1);
            let mut e = SampledLFU::<u64, caches::lfu::DefaultKeyHasher<u64>>::with_samples_and_key_hasher(max_cost, samples, Default::default());
            e.increment(&1, 1);
            let _ = e.fill_sample(vec![(9, 9)]);
            Res::Ok
        }
        "From" => {
            // sizes[0] = collection kind, sizes[1] = contents kind
            let p = pairs(s(1));
            let mut c: RawLRU<u64, u64> = match s(0) {
                0 => RawLRU::from(p.clone()),
                1 => RawLRU::from(p.iter().cloned().collect::<VecDeque<_>>()),
                2 => RawLRU::from(p.iter().cloned().collect::<LinkedList<_>>()),
                3 => RawLRU::from(p.iter().cloned().collect::<BTreeSet<_>>()),
                4 => RawLRU::from(p.iter().cloned().collect::<BinaryHeap<_>>()),
                5 => RawLRU::from(p.iter().cloned().collect::<BTreeMap<_, _>>()),
                6 => RawLRU::from(&p[..]),
                7 => {
                    let mut q = p.clone();
                    RawLRU::from(&mut q[..])
                }
                8 => RawLRU::from([(1u64, 1u64), (2, 2), (1, 3)]),
                9 => RawLRU::from([(0u64, 0u64); 0]),
                #[cfg(feature = "std")]
                10 => RawLRU::from(p.iter().cloned().collect::<std::collections::HashMap<_, _>>()),
                #[cfg(feature = "std")]
                11 => RawLRU::from(p.iter().cloned().collect::<std::collections::HashSet<_>>()),
                // iterators whose size_hint lower bound is 0 or below the real length
                12 => p.iter().cloned().filter(|_| true).collect(),
                13 => p.iter().cloned().flat_map(|x| vec![x, (x.0 + 100, x.1)]).collect(),
                14 => p.iter().cloned().chain(std::iter::empty()).skip_while(|_| false).collect(),
                _ => p.iter().cloned().collect(),
            };
            exercise(&mut c);
            Res::Ok
        }
        other => Res::Err(format!("unknown ctor {other}")),
    }
}

/// acceptable error variants if a documented-invalid argument is present (None = any outcome
/// but a panic is fine)
pub fn expected_errors(c: &Call) -> Option<Vec<&'static str>> {
    let s = |i: usize| c.sizes[i];
    let mut v = vec![];
    match c.ctor.as_str() {
        "RawLRU::new" | "RawLRU::with_hasher" | "RawLRU::with_on_evict_cb" | "RawLRU::with_on_evict_cb_and_hasher" | "AdaptiveCache::new" | "AdaptiveCache::builder" | "AdaptiveCache::from_builder" | "TwoQueueCache::new" | "TwoQueueCacheBuilder::new" => {
            if s(0) == 0 {
                v.push("InvalidSize");
            }
        }
        "SegmentedCache::new" | "SegmentedCache::builder" | "SegmentedCache::from_builder" => {
            if s(0) == 0 || s(1) == 0 {
                v.push("InvalidSize");
            }
        }
        "TwoQueueCache::with_recent_ratio" => {
            if s(0) == 0 {
                v.push("InvalidSize");
            }
            if ratio_invalid(c.f(0)) {
                v.push("InvalidRecentRatio");
            }
        }
        "TwoQueueCache::with_ghost_ratio" => {
            if s(0) == 0 {
                v.push("InvalidSize");
            }
            if ratio_invalid(c.f(0)) {
                v.push("InvalidGhostRatio");
            }
        }
        "TwoQueueCache::with_2q_parameters" | "TwoQueueCache::builder" | "TwoQueueCache::from_builder" => {
            if s(0) == 0 {
                v.push("InvalidSize");
            }
            if ratio_invalid(c.f(0)) {
                v.push("InvalidRecentRatio");
            }
            if ratio_invalid(c.f(1)) {
                v.push("InvalidGhostRatio");
            }
        }
        "WTinyLFUCache::new" => {
            if s(1) == 0 {
                v.push("InvalidSamples");
            }
            if s(0) == 0 {
                v.extend(["InvalidWindowCacheSize", "InvalidProtectedCacheSize", "InvalidProbationaryCacheSize", "InvalidCountMinWidth"]);
            }
            if !v.is_empty() {
                // derived sizes may be 0 as well: any size error is a matching one
                v.extend(["InvalidWindowCacheSize", "InvalidProtectedCacheSize", "InvalidProbationaryCacheSize"]);
            }
        }
        "WTinyLFUCache::with_sizes" | "WTinyLFUCache::builder" | "WTinyLFUCache::from_builder" => {
            if s(0) == 0 {
                v.push("InvalidWindowCacheSize");
            }
            if s(1) == 0 {
                v.push("InvalidProtectedCacheSize");
            }
            if s(2) == 0 {
                v.push("InvalidProbationaryCacheSize");
            }
            if s(3) == 0 {
                v.push("InvalidSamples");
            }
            if c.ctor != "WTinyLFUCache::with_sizes" && fp_invalid(c.f(0)) {
                v.push("InvalidFalsePositiveRatio");
            }
        }
        "TinyLFU::new" | "TinyLFUBuilder" => {
            if s(0) == 0 {
                v.push("InvalidCountMinWidth");
            }
            if s(1) == 0 {
                v.push("InvalidSamples");
            }
            if fp_invalid(c.f(0)) {
                v.push("InvalidFalsePositiveRatio");
            }
        }
        _ => {}
    }
    if v.is_empty() {
        None
    } else {
        Some(v)
    }
}

pub fn judge(c: &Call) -> (Res, Option<Violation>) {
    let _ = take_last_panic();
    let r = match catch_unwind(AssertUnwindSafe(|| run_call(c))) {
        Ok(r) => r,
        Err(_) => {
            let (loc, msg) = take_last_panic().unwrap_or_default();
            Res::Panic(loc, msg)
        }
    };
    let v = match (&r, expected_errors(c)) {
        (Res::Panic(loc, msg), _) => Some(Violation {
            prop: "C05",
            step: 0,
            msg: format!("{} panicked at {}: {}", c.describe(), loc, msg),
            sig: format!("ctor/{}/{}", c.ctor, panic_class(loc)),
        }),
        (Res::Ok, Some(exp)) => Some(Violation {
            prop: "C05",
            step: 0,
            msg: format!("{} returned Ok although an argument is documented as invalid (expected Err of one of {:?})", c.describe(), exp),
            sig: format!("ctor/{}/accepted-invalid", c.ctor),
        }),
        (Res::Err(e), Some(exp)) if !exp.contains(&e.as_str()) => Some(Violation {
            prop: "C05",
            step: 0,
            msg: format!("{} returned Err({}) which matches none of the invalid arguments (expected one of {:?})", c.describe(), e, exp),
            sig: format!("ctor/{}/wrong-error", c.ctor),
        }),
        _ => None,
    };
    (r, v)
}

/// the complete grid
pub fn grid() -> Vec<Call> {
    let mut g = vec![];
    let r = ratios();
    let f = fps();
    for &s in SIZES.iter() {
        for name in ["RawLRU::new", "RawLRU::with_hasher", "RawLRU::with_on_evict_cb", "RawLRU::with_on_evict_cb_and_hasher", "AdaptiveCache::new", "AdaptiveCache::builder", "AdaptiveCache::from_builder", "TwoQueueCache::new", "TwoQueueCacheBuilder::new"] {
            g.push(Call::new(name, &[s], &[]));
        }
        for &t in SIZES.iter() {
            for name in ["SegmentedCache::new", "SegmentedCache::builder", "SegmentedCache::from_builder"] {
                g.push(Call::new(name, &[s, t], &[]));
            }
        }
        for &a in r.iter() {
            g.push(Call::new("TwoQueueCache::with_recent_ratio", &[s], &[a]));
            g.push(Call::new("TwoQueueCache::with_ghost_ratio", &[s], &[a]));
            for &b in r.iter() {
                g.push(Call::new("TwoQueueCache::with_2q_parameters", &[s], &[a, b]));
                g.push(Call::new("TwoQueueCache::builder", &[s], &[a, b]));
                g.push(Call::new("TwoQueueCache::from_builder", &[s], &[a, b]));
            }
        }
        for &smp in SAMPLES.iter() {
            g.push(Call::new("WTinyLFUCache::new", &[s, smp], &[]));
            for &fp in f.iter() {
                g.push(Call::new("TinyLFU::new", &[s, smp], &[fp]));
                g.push(Call::new("TinyLFUBuilder", &[s, smp], &[fp]));
            }
            g.push(Call::new("SampledLFU", &[s * 250_000, smp], &[]));
        }
        // a SampledLFU allocates nothing for its sample size: any usize is a size that fits
        for &smp in &[usize::MAX, usize::MAX / 2, (isize::MAX as usize) + 1, 1usize << 40, (isize::MAX as usize) / 8] {
            g.push(Call::new("SampledLFU", &[s * 250_000, smp], &[]));
        }
    }
    for &w in SMALL_SIZES.iter() {
        for &p in SMALL_SIZES.iter() {
            for &t in SMALL_SIZES.iter() {
                for &smp in SAMPLES.iter() {
                    g.push(Call::new("WTinyLFUCache::with_sizes", &[w, p, t, smp], &[]));
                    for &fp in f.iter() {
                        g.push(Call::new("WTinyLFUCache::builder", &[w, p, t, smp], &[fp]));
                        g.push(Call::new("WTinyLFUCache::from_builder", &[w, p, t, smp], &[fp]));
                    }
                }
            }
        }
    }
    for coll in 0..16usize {
        for contents in 0..4usize {
            g.push(Call::new("From", &[coll, contents], &[]));
        }
    }
    g
}

/// does the tuple contain a boundary value (non-triviality rule of the grid)
pub fn has_boundary(c: &Call) -> bool {
    c.sizes.iter().any(|s| *s <= 1 || *s == 4096)
        || c.floats.iter().any(|b| {
            let f = f64::from_bits(*b);
            f.is_nan() || f.is_infinite() || f <= 0.0 || f >= 1.0 - f64::EPSILON || f == 5e-324
        })
        || c.ctor == "From"
}
