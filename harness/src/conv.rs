//! Conversion engine: a RawLRU built by `From<collection>` / `FromIterator` from generated
//! (key, value) pairs *with repeated keys*, followed by a short generated history.
//!
//! The semantics of a repeated key in the source are not documented (first pair wins, last pair
//! wins, position of the first or of the last occurrence: all defensible), so no reference
//! model is used. What every variant must satisfy is checked after the construction and after
//! every later step:
//!   C03  structural audit (links <-> index), no read of a dead / freed / uninitialised object,
//!        no write into freed memory (quarantine)
//!   C04  every key and value object handed over is either retained exactly once or dropped
//!        exactly once: live objects == 2 x resident entries at every step, none live and no
//!        heap block left after the drop
//!   C01  len() == number of entries walked == number of distinct keys contained, <= cap()
//!   C02  (letter only) a resident (key, value) is a pair that was given for that key, or the
//!        value stored by a later put
use crate::alloc;
use crate::inst::*;
use crate::interp::{CaseReport, Violation};
use caches::{Cache, RawLRU, ResizableCache};
use proptest::prelude::*;
use serde::{Deserialize, Serialize};
use std::collections::{BTreeMap, BTreeSet, LinkedList, VecDeque};
use std::panic::{catch_unwind, AssertUnwindSafe};

#[derive(Clone, Debug, Serialize, Deserialize, PartialEq)]
pub enum COp {
    Put(u16),
    Get(u16),
    GetMut(u16),
    Peek(u16),
    Contains(u16),
    Remove(u16),
    RemoveLru,
    Resize(u16),
    CloneSwap,
    Purge,
    IterBack,
}

#[derive(Clone, Debug, Serialize, Deserialize)]
pub struct ConvCase {
    /// which conversion (see `FORMS`)
    pub form: u8,
    /// the keys of the source pairs, in source order (value j is the token 64 + j)
    pub items: Vec<u16>,
    pub ops: Vec<COp>,
}

pub const FORMS: [&str; 14] = ["Vec", "VecDeque", "LinkedList", "&[..]", "&mut [..]", "collect()", "collect() with size_hint 0", "array", "from_iter(VecDeque)", "HashMap (std) / Vec", "BTreeSet<(K, V)>", "BinaryHeap<(K, V)>", "BTreeMap", "HashSet<(K, V)> (std) / BTreeSet"];
/// conversions whose source has no order of its own (hash order)
pub fn unordered_form(form: u8) -> bool {
    matches!(form % FORMS.len() as u8, 9 | 13)
}
const INIT: u32 = 64;

#[derive(Clone, Copy, PartialEq, Eq, Debug)]
pub enum ConvProp {
    C01,
    C02,
    C03,
    C04,
    C14,
}

impl ConvProp {
    pub fn id(self) -> &'static str {
        match self {
            ConvProp::C01 => "C01",
            ConvProp::C02 => "C02",
            ConvProp::C03 => "C03",
            ConvProp::C04 => "C04",
            ConvProp::C14 => "C14",
        }
    }
}

pub fn conv_strategy(thorough: bool) -> BoxedStrategy<ConvCase> {
    let key = || prop_oneof![8 => 0u16..5, 1 => 0u16..12];
    let op = prop_oneof![
        6 => key().prop_map(COp::Put),
        4 => key().prop_map(COp::Get),
        2 => key().prop_map(COp::GetMut),
        2 => key().prop_map(COp::Peek),
        2 => key().prop_map(COp::Contains),
        3 => key().prop_map(COp::Remove),
        1 => Just(COp::RemoveLru),
        1 => (0u16..8).prop_map(COp::Resize),
        1 => Just(COp::CloneSwap),
        1 => Just(COp::Purge),
        1 => Just(COp::IterBack),
    ];
    let n = if thorough { 30 } else { 12 };
    (0u8..FORMS.len() as u8, prop::collection::vec(key(), 0..=10), prop::collection::vec(op, 0..=n)).prop_map(|(form, items, ops)| ConvCase { form, items, ops }).boxed()
}

type C = RawLRU<TKey, TVal>;

fn build(form: u8, items: Vec<(TKey, TVal)>) -> C {
    match form % FORMS.len() as u8 {
        0 => RawLRU::from(items),
        1 => RawLRU::from(items.into_iter().collect::<VecDeque<_>>()),
        2 => RawLRU::from(items.into_iter().collect::<LinkedList<_>>()),
        3 => RawLRU::from(&items[..]),
        4 => {
            let mut items = items;
            RawLRU::from(&mut items[..])
        }
        5 => items.into_iter().collect(),
        6 => items.into_iter().filter(|_| true).collect(),
        7 => {
            // arrays of the matching length (the conversion is const-generic)
            let mut it = items.into_iter();
            macro_rules! arr {
                ($($n:expr),*) => {
                    match it.len() {
                        0 => RawLRU::from([(); 0].map(|_| -> (TKey, TVal) { unreachable!() })),
                        $( $n => { let a: [(TKey, TVal); $n] = core::array::from_fn(|_| it.next().unwrap()); RawLRU::from(a) } )*
                        _ => it.collect(),
                    }
                };
            }
            arr!(1, 2, 3, 4, 5)
        }
        8 => <C as core::iter::FromIterator<(TKey, TVal)>>::from_iter(items.into_iter().collect::<VecDeque<_>>()),
        // sets of pairs may hold one key with several values
        10 => RawLRU::from(items.into_iter().collect::<std::collections::BTreeSet<(TKey, TVal)>>()),
        11 => RawLRU::from(items.into_iter().collect::<std::collections::BinaryHeap<(TKey, TVal)>>()),
        12 => RawLRU::from(items.into_iter().collect::<std::collections::BTreeMap<TKey, TVal>>()),
        13 => {
            #[cfg(feature = "std")]
            {
                RawLRU::from(items.into_iter().collect::<std::collections::HashSet<(TKey, TVal)>>())
            }
            #[cfg(not(feature = "std"))]
            {
                RawLRU::from(items.into_iter().collect::<std::collections::BTreeSet<(TKey, TVal)>>())
            }
        }
        _ => {
            #[cfg(feature = "std")]
            {
                // a map source has unique keys: later pairs replace earlier ones inside the map
                RawLRU::from(items.into_iter().collect::<std::collections::HashMap<TKey, TVal>>())
            }
            #[cfg(not(feature = "std"))]
            {
                RawLRU::from(items)
            }
        }
    }
}

fn v(prop: ConvProp, step: usize, class: &str, msg: String) -> Violation {
    Violation { prop: prop.id(), step, msg, sig: format!("conv/-/{}", class) }
}

struct St {
    /// values a resident entry of that key may carry
    allowed: BTreeMap<u16, BTreeSet<u32>>,
}

fn observe(c: &C, prop: ConvProp, step: usize, what: &str, st: &mut St) -> Result<(), Violation> {
    if prop == ConvProp::C03 {
        if let Err(e) = c.verif_audit() {
            return Err(v(prop, step, "audit", format!("{what}: structural audit failed: {e}")));
        }
    }
    let walked: Vec<(u16, u32)> = c.iter().map(|(k, val)| (k.read(), val.read())).collect();
    let back: Vec<(u16, u32)> = c.iter_lru().map(|(k, val)| (k.read(), val.read())).collect();
    if prop == ConvProp::C03 {
        let b = take_bad();
        if !b.is_empty() {
            return Err(v(prop, step, "dead-object", format!("{what}: {}", b.join("; "))));
        }
        let mut rev = back.clone();
        rev.reverse();
        if rev != walked {
            return Err(v(prop, step, "links", format!("{what}: forward walk {:?} is not the reverse of the backward walk {:?}", walked, back)));
        }
    }
    let _ = take_bad();
    let keys: BTreeSet<u16> = walked.iter().map(|e| e.0).collect();
    if prop == ConvProp::C14 {
        // a converted cache is a reachable state like any other: every shared iterator family
        // yields exactly len() entries, each key once, the *_lru variants are the exact reverses,
        // keys/values are the projections, hints are exact, and a walk from both ends meets
        let n = c.len();
        let bad = |why: String| v(prop, step, "iter", format!("{what}: {why}; iter() = {:?}, iter_lru() = {:?}, len() = {n}", walked, back));
        let mut rev = back.clone();
        rev.reverse();
        if walked.len() != n || back.len() != n {
            return Err(bad(format!("iter() yields {} and iter_lru() {} items", walked.len(), back.len())));
        }
        if keys.len() != walked.len() {
            return Err(bad("an entry is yielded twice".into()));
        }
        if rev != walked {
            return Err(bad("iter_lru() is not the exact reverse of iter()".into()));
        }
        if c.iter().size_hint() != (n, Some(n)) || c.iter_lru().size_hint() != (n, Some(n)) || c.iter().len() != n || c.iter().count() != n {
            return Err(bad(format!("size_hint / len / count of a fresh iterator: {:?} / {} / {}", c.iter().size_hint(), c.iter().len(), c.iter().count())));
        }
        let ks: Vec<u16> = c.keys().map(|k| k.read()).collect();
        let ksl: Vec<u16> = c.keys_lru().map(|k| k.read()).collect();
        let vs: Vec<u32> = c.values().map(|x| x.read()).collect();
        let vsl: Vec<u32> = c.values_lru().map(|x| x.read()).collect();
        if ks != walked.iter().map(|e| e.0).collect::<Vec<_>>() || vs != walked.iter().map(|e| e.1).collect::<Vec<_>>() || ksl != back.iter().map(|e| e.0).collect::<Vec<_>>() || vsl != back.iter().map(|e| e.1).collect::<Vec<_>>() {
            return Err(bad(format!("keys/values are not the projections: keys {:?} keys_lru {:?} values {:?} values_lru {:?}", ks, ksl, vs, vsl)));
        }
        let into: Vec<(u16, u32)> = c.into_iter().map(|(k, val)| (k.read(), val.read())).collect();
        if into != walked {
            return Err(bad(format!("(&cache).into_iter() yields {:?}", into)));
        }
        // alternate the two ends of every entry family until both report the end
        for lru in [false, true] {
            let (mut front, mut tail): (Vec<(u16, u32)>, Vec<(u16, u32)>) = (vec![], vec![]);
            let mut step_items = |f: &mut dyn FnMut(bool) -> Option<(u16, u32)>| {
                let mut from_front = true;
                let mut nones = 0;
                while nones < 2 && front.len() + tail.len() <= n + 2 {
                    match f(from_front) {
                        Some(e) => {
                            nones = 0;
                            if from_front {
                                front.push(e)
                            } else {
                                tail.push(e)
                            }
                        }
                        None => nones += 1,
                    }
                    from_front = !from_front;
                }
            };
            if lru {
                let mut it = c.iter_lru();
                step_items(&mut |ff| if ff { it.next() } else { it.next_back() }.map(|(k, val)| (k.read(), val.read())));
            } else {
                let mut it = c.iter();
                step_items(&mut |ff| if ff { it.next() } else { it.next_back() }.map(|(k, val)| (k.read(), val.read())));
            }
            tail.reverse();
            front.extend(tail);
            let want = if lru { &back } else { &walked };
            if &front != want {
                return Err(bad(format!("alternating next / next_back on {} yields (front part, then back part reversed) {:?}", if lru { "iter_lru()" } else { "iter()" }, front)));
            }
        }
        let _ = take_bad();
    }
    if prop == ConvProp::C01 {
        if c.len() != walked.len() || keys.len() != walked.len() || c.len() > c.cap() || c.is_empty() != walked.is_empty() {
            return Err(v(prop, step, "len", format!("{what}: len() = {}, cap() = {}, is_empty() = {}, entries walked {:?}", c.len(), c.cap(), c.is_empty(), walked)));
        }
        for k in 0..12u16 {
            let probe = TKey::new(k);
            if c.contains(&probe) != keys.contains(&k) || c.peek(&probe).is_some() != keys.contains(&k) {
                return Err(v(prop, step, "contains", format!("{what}: contains({k}) = {}, peek({k}).is_some() = {}, entries walked {:?}", c.contains(&probe), c.peek(&probe).is_some(), walked)));
            }
        }
    }
    if prop == ConvProp::C02 {
        // a resident pair is one that was given (or stored later) for that key, and every lookup
        // form agrees with the walk
        for (k, val) in &walked {
            let probe = TKey::new(*k);
            if c.peek(&probe).map(|x| x.read()) != Some(*val) {
                return Err(v(prop, step, "lookup", format!("{what}: the walk shows ({k}, {val}) but peek({k}) = {:?}", c.peek(&probe).map(|x| x.read()))));
            }
        }
        for (k, val) in &walked {
            if !st.allowed.get(k).map(|s| s.contains(val)).unwrap_or(false) {
                return Err(v(prop, step, "pair", format!("{what}: key {k} is resident with value {val}, which was never given or stored for it (allowed {:?})", st.allowed.get(k))));
            }
        }
    }
    for (k, val) in &walked {
        st.allowed.insert(*k, [*val].into_iter().collect());
    }
    st.allowed.retain(|k, _| keys.contains(k));
    if prop == ConvProp::C04 {
        let live = live_ids().len();
        if live != 2 * walked.len() {
            return Err(v(prop, step, "ledger", format!("{what}: {} key/value objects are live, the cache holds {} entries (each owns one key and one value); entries {:?}", live, walked.len(), walked)));
        }
    }
    Ok(())
}

/// the mutable families of a converted cache: exactly len() items, mutual reverses, and the same
/// entries as the shared walk
fn mut_iters(c: &mut C, step: usize, items: &[u16]) -> Result<(), Violation> {
    let n = c.len();
    let shared: Vec<(u16, u32)> = c.iter().map(|(k, val)| (k.read(), val.read())).collect();
    let m: Vec<(u16, u32)> = c.iter_mut().map(|(k, val)| (k.read(), val.read())).collect();
    let mut ml: Vec<(u16, u32)> = c.iter_lru_mut().map(|(k, val)| (k.read(), val.read())).collect();
    let vm: Vec<u32> = c.values_mut().map(|x| x.read()).collect();
    let mut vml: Vec<u32> = c.values_lru_mut().map(|x| x.read()).collect();
    ml.reverse();
    vml.reverse();
    let _ = take_bad();
    if m.len() != n || m != shared || ml != shared || vm != shared.iter().map(|e| e.1).collect::<Vec<_>>() || vml != vm {
        return Err(v(ConvProp::C14, step, "iter-mut", format!("step {step} (source keys {:?}): len() = {n}, iter() = {:?}, iter_mut() = {:?}, iter_lru_mut() reversed = {:?}, values_mut() = {:?}, values_lru_mut() reversed = {:?}", items, shared, m, ml, vm, vml)));
    }
    Ok(())
}

fn run_inner(case: &ConvCase, prop: ConvProp, rep: &mut CaseReport) -> Result<(), Violation> {
    let items: Vec<(TKey, TVal)> = case.items.iter().enumerate().map(|(j, k)| (TKey::new(*k), TVal::new(INIT + j as u32))).collect();
    let mut st = St { allowed: BTreeMap::new() };
    for (j, k) in case.items.iter().enumerate() {
        st.allowed.entry(*k).or_default().insert(INIT + j as u32);
    }
    let distinct: BTreeSet<u16> = case.items.iter().copied().collect();
    let mut c = build(case.form, items);
    let what0 = format!("after RawLRU::from / collect ({}) of pairs with keys {:?}", FORMS[(case.form % FORMS.len() as u8) as usize], case.items);
    observe(&c, prop, 0, &what0, &mut st)?;
    if prop == ConvProp::C14 {
        mut_iters(&mut c, 0, &case.items)?;
        rep.nontrivial = distinct.len() < case.items.len() && c.len() >= 2;
    }
    let _ = distinct;
    for (i, op) in case.ops.iter().enumerate() {
        rep.steps = i + 1;
        let tok = crate::ops::token(i, 0);
        match op {
            COp::Put(k) => {
                drop(c.put(TKey::new(*k), TVal::new(tok)));
                st.allowed.insert(*k, [tok].into_iter().collect());
            }
            COp::Get(k) => {
                let _ = c.get(&TKey::new(*k)).map(|x| x.read());
            }
            COp::GetMut(k) => {
                if let Some(x) = c.get_mut(&TKey::new(*k)) {
                    x.write(tok);
                    st.allowed.insert(*k, [tok].into_iter().collect());
                }
            }
            COp::Peek(k) => {
                let _ = c.peek(&TKey::new(*k)).map(|x| x.read());
            }
            COp::Contains(k) => {
                let _ = c.contains(&TKey::new(*k));
            }
            COp::Remove(k) => drop(c.remove(&TKey::new(*k))),
            COp::RemoveLru => drop(c.remove_lru()),
            COp::Resize(n) => {
                let _ = c.resize(*n as usize);
            }
            COp::CloneSwap => {
                let d = c.clone();
                c = d;
            }
            COp::Purge => c.purge(),
            COp::IterBack => {
                let mut it = (&mut c).into_iter();
                let _ = it.next_back().map(|(k, x)| (k.read(), x.read()));
                let _ = it.next().map(|(k, x)| (k.read(), x.read()));
            }
        }
        observe(&c, prop, i + 1, &format!("step {i} {op:?} (source keys {:?}, {})", case.items, FORMS[(case.form % FORMS.len() as u8) as usize]), &mut st)?;
        if prop == ConvProp::C14 {
            mut_iters(&mut c, i + 1, &case.items)?;
        }
    }
    drop(c);
    if prop == ConvProp::C04 {
        let live = live_ids();
        if !live.is_empty() {
            return Err(v(prop, rep.steps, "leak", format!("after the drop of the cache {} key/value object(s) are still live (ids {:?}); source keys {:?}, {}", live.len(), live, case.items, FORMS[(case.form % FORMS.len() as u8) as usize])));
        }
    }
    if prop == ConvProp::C03 {
        let b = take_bad();
        if !b.is_empty() {
            return Err(v(prop, rep.steps, "dead-object", format!("while dropping: {}", b.join("; "))));
        }
    }
    Ok(())
}

pub fn run_conv(case: &ConvCase, prop: ConvProp) -> CaseReport {
    reset_case();
    let _ = take_last_panic();
    let mut rep = CaseReport::default();
    if prop == ConvProp::C03 {
        alloc::set_quarantine(true);
        alloc::take_quarantine_damage();
    }
    let blocks0 = alloc::live_blocks();
    let r = catch_unwind(AssertUnwindSafe(|| run_inner(case, prop, &mut rep)));
    match r {
        Ok(Ok(())) => {}
        Ok(Err(x)) => rep.violation = Some(x),
        Err(_) => {
            let (loc, msg) = take_last_panic().unwrap_or_default();
            let b = take_bad();
            if prop == ConvProp::C03 && !b.is_empty() {
                rep.violation = Some(v(prop, rep.steps, "dead-object-before-panic", format!("the library panicked at {loc} after touching dead objects: {}", b.join("; "))));
            } else {
                rep.aborted_by_panic = Some((loc, msg));
            }
        }
    }
    if prop == ConvProp::C03 {
        let dmg = alloc::flush_quarantine();
        alloc::take_quarantine_damage();
        alloc::set_quarantine(false);
        if dmg > 0 && rep.violation.is_none() && rep.aborted_by_panic.is_none() {
            rep.violation = Some(v(prop, rep.steps, "write-after-free", format!("{} freed block(s) were written to after being freed; source keys {:?}, {}", dmg, case.items, FORMS[(case.form % FORMS.len() as u8) as usize])));
        }
    }
    if alloc::TRACKING && prop == ConvProp::C04 && rep.violation.is_none() && rep.aborted_by_panic.is_none() {
        let now = alloc::live_blocks();
        if now != blocks0 {
            rep.violation = Some(v(prop, rep.steps, "leak-blocks", format!("{} heap block(s) are still live after the cache built by a conversion was dropped; source keys {:?}, {}", now - blocks0, case.items, FORMS[(case.form % FORMS.len() as u8) as usize])));
        }
    }
    let dup = {
        let s: BTreeSet<u16> = case.items.iter().copied().collect();
        s.len() < case.items.len()
    };
    rep.nontrivial = dup && !case.ops.is_empty();
    rep
}

// ------------------------------------------------------------------ C18: conversions under injected panics

/// one execution with the crash point `arm_at` (-1 = dry run): (user-code calls seen, hazards)
fn one_faulty(case: &ConvCase, arm_at: i64) -> (i64, Vec<String>) {
    reset_case();
    alloc::set_quarantine(true);
    alloc::take_quarantine_damage();
    let items: Vec<(TKey, TVal)> = case.items.iter().enumerate().map(|(j, k)| (TKey::new(*k), TVal::new(INIT + j as u32))).collect();
    arm(arm_at);
    let built = catch_unwind(AssertUnwindSafe(move || build(case.form, items)));
    let mut cache: Option<C> = built.ok();
    let mut lost = false;
    if let Some(c) = cache.as_mut() {
        for (i, op) in case.ops.iter().enumerate() {
            let tok = crate::ops::token(i, 0);
            if fired().is_some() {
                // after a panic has orphaned a node a shrinking resize / remove_lru loop may spin
                // forever (a hang, not a memory hazard): excluded by construction, as in E4
                if matches!(op, COp::Resize(n) if (*n as usize) < c.cap()) {
                    continue;
                }
            }
            let r = catch_unwind(AssertUnwindSafe(|| match op {
                COp::Put(k) => drop(c.put(TKey::new(*k), TVal::new(tok))),
                COp::Get(k) => {
                    let _ = c.get(&TKey::new(*k)).map(|x| x.read());
                }
                COp::GetMut(k) => {
                    if let Some(x) = c.get_mut(&TKey::new(*k)) {
                        x.write(tok);
                    }
                }
                COp::Peek(k) => {
                    let _ = c.peek(&TKey::new(*k)).map(|x| x.read());
                }
                COp::Contains(k) => {
                    let _ = c.contains(&TKey::new(*k));
                }
                COp::Remove(k) => drop(c.remove(&TKey::new(*k))),
                COp::RemoveLru => drop(c.remove_lru()),
                COp::Resize(n) => {
                    let _ = c.resize(*n as usize);
                }
                COp::CloneSwap => {
                    let d = c.clone();
                    *c = d;
                }
                COp::Purge => c.purge(),
                COp::IterBack => {
                    let mut it = (&mut *c).into_iter();
                    let _ = it.next_back().map(|(k, x)| (k.read(), x.read()));
                    let _ = it.next().map(|(k, x)| (k.read(), x.read()));
                }
            }));
            if r.is_err() {
                let _ = take_last_panic();
            }
            if has_bad() {
                break;
            }
            if fired().is_some() && catch_unwind(AssertUnwindSafe(|| c.verif_index_lost())).unwrap_or(0) > 0 {
                bad("HASHMAP-LOST-ENTRIES: after the injected panic the hash index counts entries it cannot find any more".to_string());
                lost = true;
                break;
            }
        }
        if !lost {
            // everything still reachable must be live
            let _ = catch_unwind(AssertUnwindSafe(|| {
                for (k, x) in c.iter() {
                    let _ = (k.read(), x.read());
                }
            }));
        }
    }
    if lost {
        std::mem::forget(cache.take());
    }
    if let Some(c) = cache.take() {
        if catch_unwind(AssertUnwindSafe(move || drop(c))).is_err() {
            let _ = take_last_panic();
        }
    }
    arm(-1);
    let n = points_seen();
    let mut b = take_bad();
    let dmg = alloc::flush_quarantine();
    alloc::take_quarantine_damage();
    alloc::set_quarantine(false);
    if dmg > 0 {
        b.push(format!("{} freed block(s) were written to after being freed", dmg));
    }
    (n, b)
}

/// every user-code call of (conversion + history + drop) is a crash point
pub fn run_conv_faults(case: &ConvCase) -> CaseReport {
    let mut rep = CaseReport::default();
    rep.steps = case.ops.len();
    let (n, b) = one_faulty(case, -1);
    if !b.is_empty() {
        // hazards without an injected fault belong to C03 / C04
        rep.aborted_by_panic = Some(("dry-run".into(), b.join("; ")));
        return rep;
    }
    let mut fired_in_build = false;
    for i in 0..n {
        let (_, b) = one_faulty(case, i);
        let pt = fired().map(|p| p.name()).unwrap_or("-");
        if !b.is_empty() {
            let class = if b.iter().any(|x| x.contains("HASHMAP-LOST-ENTRIES")) {
                "std-hashmap-lost-entries"
            } else if b.iter().any(|x| x.contains("double drop") || x.contains("drop of a non-live")) {
                "double-drop"
            } else if b.iter().any(|x| x.contains("written to after")) {
                "write-after-free"
            } else {
                "dead-object"
            };
            rep.violation = Some(Violation {
                prop: "C18",
                step: 0,
                msg: format!("RawLRU built by {} from pairs with keys {:?}, then {:?}: panic injected into user-code call #{i} ({pt}): {}", FORMS[(case.form % FORMS.len() as u8) as usize], case.items, case.ops, b.join("; ")),
                sig: if class == "std-hashmap-lost-entries" { "any/hasher-panic/std-hashmap-lost-entries".to_string() } else { format!("conv/{}/{}", pt, class) },
            });
            break;
        }
        // the first calls belong to the conversion itself
        if (i as usize) < 2 * case.items.len() {
            fired_in_build = true;
        }
    }
    rep.nontrivial = fired_in_build && n > 0 && case.items.len() >= 2;
    rep
}

// ------------------------------------------------------------------ C17: conversions are deterministic

/// The same ordered source converted twice (two caches, two differently seeded default hashers)
/// must give the same cache: same entries in the same order, same capacity, and the same
/// behaviour under the same history. (A map source has no order of its own: excluded.)
pub fn run_conv_det(case: &ConvCase) -> CaseReport {
    reset_case();
    let _ = take_last_panic();
    let mut rep = CaseReport::default();
    rep.steps = case.ops.len();
    let form = case.form % FORMS.len() as u8;
    if unordered_form(form) {
        return rep;
    }
    let mk = || -> Vec<(TKey, TVal)> { case.items.iter().enumerate().map(|(j, k)| (TKey::new(*k), TVal::new(INIT + j as u32))).collect() };
    let r = catch_unwind(AssertUnwindSafe(|| -> Option<Violation> {
        let mut a = build(form, mk());
        let mut b = build(form, mk());
        let snap = |c: &C| -> (Vec<(u16, u32)>, usize, usize) { (c.iter().map(|(k, x)| (k.read(), x.read())).collect(), c.len(), c.cap()) };
        if snap(&a) != snap(&b) {
            return Some(Violation { prop: "C17", step: 0, msg: format!("two conversions ({}) of the same pairs (keys {:?}) give different caches: {:?} vs {:?}", FORMS[form as usize], case.items, snap(&a), snap(&b)), sig: "conv/-/nondeterministic".into() });
        }
        for (i, op) in case.ops.iter().enumerate() {
            let tok = crate::ops::token(i, 0);
            let mut res = Vec::new();
            for c in [&mut a, &mut b] {
                let r = match op {
                    COp::Put(k) => match c.put(TKey::new(*k), TVal::new(tok)) {
                        caches::PutResult::Put => "Put".to_string(),
                        caches::PutResult::Update(x) => format!("Update({})", x.read()),
                        caches::PutResult::Evicted { key, value } => format!("Evicted({}, {})", key.read(), value.read()),
                        caches::PutResult::EvictedAndUpdate { evicted, update } => format!("EvictedAndUpdate(({}, {}), {})", evicted.0.read(), evicted.1.read(), update.read()),
                    },
                    COp::Get(k) => format!("{:?}", c.get(&TKey::new(*k)).map(|x| x.read())),
                    COp::GetMut(k) => format!("{:?}", c.get_mut(&TKey::new(*k)).map(|x| x.read())),
                    COp::Peek(k) => format!("{:?}", c.peek(&TKey::new(*k)).map(|x| x.read())),
                    COp::Contains(k) => format!("{}", c.contains(&TKey::new(*k))),
                    COp::Remove(k) => format!("{:?}", c.remove(&TKey::new(*k)).map(|x| x.read())),
                    COp::RemoveLru => format!("{:?}", c.remove_lru().map(|(k, x)| (k.read(), x.read()))),
                    COp::Resize(n) => format!("{}", c.resize(*n as usize)),
                    COp::CloneSwap => {
                        let d = c.clone();
                        *c = d;
                        String::new()
                    }
                    COp::Purge => {
                        c.purge();
                        String::new()
                    }
                    COp::IterBack => format!("{:?}", c.iter_lru().next().map(|(k, x)| (k.read(), x.read()))),
                };
                res.push(r);
            }
            if res[0] != res[1] || snap(&a) != snap(&b) {
                return Some(Violation { prop: "C17", step: i + 1, msg: format!("step {i} {op:?}: two caches converted ({}) from the same pairs (keys {:?}) diverge: results {:?}, states {:?} vs {:?}", FORMS[form as usize], case.items, res, snap(&a), snap(&b)), sig: "conv/-/nondeterministic".into() });
            }
        }
        None
    }));
    match r {
        Ok(v) => rep.violation = v,
        Err(_) => rep.aborted_by_panic = Some(take_last_panic().unwrap_or_default()),
    }
    let _ = take_bad();
    let distinct: BTreeSet<u16> = case.items.iter().copied().collect();
    rep.nontrivial = distinct.len() >= 3;
    rep
}
