//! Instrumented user types: drop-tracked keys/values with a liveness magic, fault-injection
//! points in every piece of user code the library can call, hashers, key hashers and a
//! recording eviction callback.

use caches::lfu::{DefaultKeyHasher, KeyHasher};
use caches::{Cache, OnEvictCallback};
use std::borrow::Borrow;
use std::cell::{Cell, RefCell};
use std::hash::{BuildHasher, Hash, Hasher};

pub const LIVE: u32 = 0x600D_600D;
pub const DEAD: u32 = 0xDEAD_DEAD;

#[derive(Clone, Copy, Debug, PartialEq, Eq, PartialOrd, Ord, Hash)]
pub enum Point {
    Hash,
    Eq,
    Clone,
    Drop,
    BuildHasher,
    HasherFinish,
    Callback,
    KeyHasher,
}

impl Point {
    pub fn name(self) -> &'static str {
        match self {
            Point::Hash => "hash",
            Point::Eq => "eq",
            Point::Clone => "clone",
            Point::Drop => "drop",
            Point::BuildHasher => "build_hasher",
            Point::HasherFinish => "hasher_finish",
            Point::Callback => "callback",
            Point::KeyHasher => "key_hasher",
        }
    }
}

thread_local! {
    static REG: RefCell<Vec<u8>> = RefCell::new(Vec::new());
    static EPOCH: Cell<u32> = const { Cell::new(1) };
    static BAD: RefCell<Vec<String>> = RefCell::new(Vec::new());
    static ARM: Cell<i64> = const { Cell::new(-1) };
    static CNT: Cell<i64> = const { Cell::new(0) };
    static FIRED: Cell<Option<Point>> = const { Cell::new(None) };
    static CB_LOGS: RefCell<Vec<Vec<(u16, u32)>>> = RefCell::new(Vec::new());
    static DROPS: Cell<u64> = const { Cell::new(0) };
    static DROP_LOG_ON: Cell<bool> = const { Cell::new(false) };
    static DROP_LOG: RefCell<Vec<(bool, u32)>> = RefCell::new(Vec::new());
}

/// record the order in which keys (true, payload) and values (false, token) are dropped
pub fn set_drop_log(on: bool) {
    DROP_LOG_ON.with(|d| d.set(on));
    DROP_LOG.with(|l| l.borrow_mut().clear());
}
pub fn take_drop_log() -> Vec<(bool, u32)> {
    DROP_LOG.with(|l| std::mem::take(&mut *l.borrow_mut()))
}

/// reserve the per-thread registries once, so their growth never shows up in block counts
pub fn thread_init() {
    REG.with(|r| r.borrow_mut().reserve(1 << 18));
    BAD.with(|b| b.borrow_mut().reserve(64));
    CB_LOGS.with(|l| l.borrow_mut().reserve(64));
    // touch every thread-local once (lazy registration of destructors allocates)
    reset_case();
    let cb = RecCb::new();
    let _ = take_cb_log(cb.id);
    ZLOG.with(|l| l.borrow_mut().reserve(4096));
    let _ = take_cb_log(ZST_CB);
    bad(String::new());
    let _ = take_bad();
    let _ = take_last_panic();
    let k = TKey::new(0);
    let v = TVal::new(0);
    drop((k, v));
    let _ = std::panic::catch_unwind(|| {
        arm(0);
        point(Point::Hash);
    });
    let _ = take_last_panic();
    reset_case();
}

/// start a new case: forget all registered objects (objects of older epochs are ignored)
pub fn reset_case() {
    REG.with(|r| r.borrow_mut().clear());
    EPOCH.with(|e| e.set(e.get().wrapping_add(1).max(1)));
    BAD.with(|b| b.borrow_mut().clear());
    ARM.with(|a| a.set(-1));
    CNT.with(|c| c.set(0));
    FIRED.with(|f| f.set(None));
    CB_LOGS.with(|l| l.borrow_mut().clear());
    ZLOG.with(|l| l.borrow_mut().clear());
    DROPS.with(|d| d.set(0));
    DROP_LOG_ON.with(|d| d.set(false));
    DROP_LOG.with(|l| l.borrow_mut().clear());
}

pub fn bad(s: String) {
    BAD.with(|b| {
        let mut b = b.borrow_mut();
        if b.len() < 32 {
            b.push(s)
        }
    });
}

pub fn take_bad() -> Vec<String> {
    BAD.with(|b| std::mem::take(&mut *b.borrow_mut()))
}

pub fn has_bad() -> bool {
    BAD.with(|b| !b.borrow().is_empty())
}

pub fn arm(i: i64) {
    ARM.with(|a| a.set(i));
}

pub fn points_seen() -> i64 {
    CNT.with(|c| c.get())
}

pub fn fired() -> Option<Point> {
    FIRED.with(|f| f.get())
}

pub fn drops_seen() -> u64 {
    DROPS.with(|d| d.get())
}

/// a call into user code: panics when this is the armed invocation index
#[inline]
pub fn point(kind: Point) {
    let n = CNT.with(|c| {
        let v = c.get();
        c.set(v + 1);
        v
    });
    if ARM.with(|a| a.get()) == n && !std::thread::panicking() {
        ARM.with(|a| a.set(-1));
        FIRED.with(|f| f.set(Some(kind)));
        panic!("injected@{}:{}", n, kind.name());
    }
}

fn register() -> (u32, u32) {
    let id = REG.with(|r| {
        let mut r = r.borrow_mut();
        r.push(0);
        (r.len() - 1) as u32
    });
    (id, EPOCH.with(|e| e.get()))
}

/// registry state of an id of the current epoch: Some(true) live, Some(false) dropped
pub fn is_live(id: u32) -> Option<bool> {
    REG.with(|r| r.borrow().get(id as usize).map(|s| *s == 0))
}

pub fn registered() -> usize {
    REG.with(|r| r.borrow().len())
}

pub fn live_ids() -> Vec<u32> {
    REG.with(|r| r.borrow().iter().enumerate().filter(|(_, s)| **s == 0).map(|(i, _)| i as u32).collect())
}

#[inline]
fn rd(m: &u32) -> u32 {
    unsafe { std::ptr::read_volatile(m) }
}

fn on_drop(what: &str, id: u32, epoch: u32, magic: &mut u32, payload: u32) {
    if DROP_LOG_ON.with(|d| d.get()) {
        let is_key = what == "key";
        DROP_LOG.with(|l| l.borrow_mut().push((is_key, payload)));
    }
    let m = rd(magic);
    if m != LIVE {
        bad(format!("drop of a non-live {what} (magic={m:#x}, id={id})"));
        return;
    }
    DROPS.with(|d| d.set(d.get() + 1));
    if epoch == EPOCH.with(|e| e.get()) {
        let dbl = REG.with(|r| {
            let mut r = r.borrow_mut();
            match r.get_mut(id as usize) {
                Some(s) => {
                    let was = *s;
                    *s = 1;
                    was == 1
                }
                None => false,
            }
        });
        if dbl {
            bad(format!("double drop of {what} id={id}"));
        }
    }
    unsafe { std::ptr::write_volatile(magic, DEAD) };
    point(Point::Drop);
}

// ---------------------------------------------------------------------------------------
// keys and values

pub struct TKey {
    p: u16,
    id: u32,
    epoch: u32,
    magic: u32,
}

pub struct TVal {
    tok: u32,
    id: u32,
    epoch: u32,
    magic: u32,
}

impl TKey {
    pub fn new(p: u16) -> Self {
        let (id, epoch) = register();
        TKey { p, id, epoch, magic: LIVE }
    }
    #[inline]
    pub fn chk(&self, what: &str) -> bool {
        let m = rd(&self.magic);
        if m != LIVE {
            bad(format!("{what} on a non-live key (magic={m:#x}, id={:#x}, payload={:#x})", self.id, self.p));
            false
        } else {
            true
        }
    }
    pub fn id(&self) -> u32 {
        self.id
    }
    /// payload, checking liveness (magic and registry)
    pub fn read(&self) -> u16 {
        if self.chk("read") && self.epoch == EPOCH.with(|e| e.get()) && is_live(self.id) == Some(false) {
            bad(format!("read of a key the registry says was dropped (id={})", self.id));
        }
        self.p
    }
}

impl TVal {
    pub fn new(tok: u32) -> Self {
        let (id, epoch) = register();
        TVal { tok, id, epoch, magic: LIVE }
    }
    #[inline]
    pub fn chk(&self, what: &str) -> bool {
        let m = rd(&self.magic);
        if m != LIVE {
            bad(format!("{what} on a non-live value (magic={m:#x}, id={:#x}, token={:#x})", self.id, self.tok));
            false
        } else {
            true
        }
    }
    pub fn id(&self) -> u32 {
        self.id
    }
    pub fn read(&self) -> u32 {
        if self.chk("read") && self.epoch == EPOCH.with(|e| e.get()) && is_live(self.id) == Some(false) {
            bad(format!("read of a value the registry says was dropped (id={})", self.id));
        }
        self.tok
    }
    /// overwrite the token in place (a write through a mutable reference)
    pub fn write(&mut self, tok: u32) {
        self.chk("write");
        self.tok = tok;
    }
}

impl Hash for TKey {
    fn hash<H: Hasher>(&self, h: &mut H) {
        self.chk("hash");
        point(Point::Hash);
        h.write_u16(self.p)
    }
}
impl PartialEq for TKey {
    fn eq(&self, o: &Self) -> bool {
        self.chk("eq");
        o.chk("eq");
        point(Point::Eq);
        self.p == o.p
    }
}
impl Eq for TKey {}
impl Clone for TKey {
    fn clone(&self) -> Self {
        self.chk("clone");
        point(Point::Clone);
        TKey::new(self.p)
    }
}
impl Drop for TKey {
    fn drop(&mut self) {
        on_drop("key", self.id, self.epoch, &mut self.magic, self.p as u32);
    }
}
impl Clone for TVal {
    fn clone(&self) -> Self {
        self.chk("clone");
        point(Point::Clone);
        TVal::new(self.tok)
    }
}
impl Drop for TVal {
    fn drop(&mut self) {
        on_drop("value", self.id, self.epoch, &mut self.magic, self.tok);
    }
}
// ordering / hashing / equality needed only to put pairs into ordered and hashed *source*
// collections (conversions); no fault points here
impl PartialOrd for TKey {
    fn partial_cmp(&self, o: &Self) -> Option<std::cmp::Ordering> {
        Some(self.cmp(o))
    }
}
impl Ord for TKey {
    fn cmp(&self, o: &Self) -> std::cmp::Ordering {
        self.p.cmp(&o.p)
    }
}
impl PartialEq for TVal {
    fn eq(&self, o: &Self) -> bool {
        self.tok == o.tok
    }
}
impl Eq for TVal {}
impl PartialOrd for TVal {
    fn partial_cmp(&self, o: &Self) -> Option<std::cmp::Ordering> {
        Some(self.cmp(o))
    }
}
impl Ord for TVal {
    fn cmp(&self, o: &Self) -> std::cmp::Ordering {
        self.tok.cmp(&o.tok)
    }
}
impl Hash for TVal {
    fn hash<H: Hasher>(&self, h: &mut H) {
        h.write_u32(self.tok)
    }
}
impl std::fmt::Debug for TKey {
    fn fmt(&self, f: &mut std::fmt::Formatter<'_>) -> std::fmt::Result {
        write!(f, "K{}", self.p)
    }
}
impl std::fmt::Debug for TVal {
    fn fmt(&self, f: &mut std::fmt::Formatter<'_>) -> std::fmt::Result {
        write!(f, "V{}", self.tok)
    }
}

/// what the harness needs from a key type; lookups are part of the trait so that the
/// `String` instance can go through the borrowed form (`&str`).
pub trait KeyLike: Hash + Eq + Clone + 'static {
    const NAME: &'static str;
    fn make(p: u16) -> Self;
    fn payload(&self) -> u16;
    /// id for the ownership ledger (None for untracked key types)
    fn ident(&self) -> Option<u32>;
    fn get<C: Cache<Self, TVal>>(c: &mut C, p: u16, borrowed: bool) -> Option<&TVal>;
    fn get_mut<C: Cache<Self, TVal>>(c: &mut C, p: u16, borrowed: bool) -> Option<&mut TVal>;
    fn peek<C: Cache<Self, TVal>>(c: &C, p: u16, borrowed: bool) -> Option<&TVal>;
    fn peek_mut<C: Cache<Self, TVal>>(c: &mut C, p: u16, borrowed: bool) -> Option<&mut TVal>;
    fn contains<C: Cache<Self, TVal>>(c: &C, p: u16, borrowed: bool) -> bool;
    fn remove<C: Cache<Self, TVal>>(c: &mut C, p: u16, borrowed: bool) -> Option<TVal>;
}

impl KeyLike for TKey {
    const NAME: &'static str = "TKey";
    fn make(p: u16) -> Self {
        TKey::new(p)
    }
    fn payload(&self) -> u16 {
        self.read()
    }
    fn ident(&self) -> Option<u32> {
        Some(self.id)
    }
    fn get<C: Cache<Self, TVal>>(c: &mut C, p: u16, _b: bool) -> Option<&TVal> {
        c.get(&TKey::new(p))
    }
    fn get_mut<C: Cache<Self, TVal>>(c: &mut C, p: u16, _b: bool) -> Option<&mut TVal> {
        c.get_mut(&TKey::new(p))
    }
    fn peek<C: Cache<Self, TVal>>(c: &C, p: u16, _b: bool) -> Option<&TVal> {
        c.peek(&TKey::new(p))
    }
    fn peek_mut<C: Cache<Self, TVal>>(c: &mut C, p: u16, _b: bool) -> Option<&mut TVal> {
        c.peek_mut(&TKey::new(p))
    }
    fn contains<C: Cache<Self, TVal>>(c: &C, p: u16, _b: bool) -> bool {
        c.contains(&TKey::new(p))
    }
    fn remove<C: Cache<Self, TVal>>(c: &mut C, p: u16, _b: bool) -> Option<TVal> {
        c.remove(&TKey::new(p))
    }
}

pub fn skey(p: u16) -> String {
    // heap-owning, variable length, common prefixes
    // (one payload in eleven gives a key wider than a kilobyte)
    format!("key-{}-{}", p, "x".repeat(if p % 11 == 7 { 1500 } else { (p % 5) as usize }))
}
pub fn skey_payload(s: &str) -> u16 {
    s.split('-').nth(1).and_then(|x| x.parse().ok()).unwrap_or(u16::MAX)
}

impl KeyLike for String {
    const NAME: &'static str = "String";
    fn make(p: u16) -> Self {
        skey(p)
    }
    fn payload(&self) -> u16 {
        skey_payload(self)
    }
    fn ident(&self) -> Option<u32> {
        None
    }
    fn get<C: Cache<Self, TVal>>(c: &mut C, p: u16, b: bool) -> Option<&TVal> {
        let k = skey(p);
        if b {
            c.get::<str>(k.as_str())
        } else {
            c.get::<String>(&k)
        }
    }
    fn get_mut<C: Cache<Self, TVal>>(c: &mut C, p: u16, b: bool) -> Option<&mut TVal> {
        let k = skey(p);
        if b {
            c.get_mut::<str>(k.as_str())
        } else {
            c.get_mut::<String>(&k)
        }
    }
    fn peek<C: Cache<Self, TVal>>(c: &C, p: u16, b: bool) -> Option<&TVal> {
        let k = skey(p);
        if b {
            c.peek::<str>(k.as_str())
        } else {
            c.peek::<String>(&k)
        }
    }
    fn peek_mut<C: Cache<Self, TVal>>(c: &mut C, p: u16, b: bool) -> Option<&mut TVal> {
        let k = skey(p);
        if b {
            c.peek_mut::<str>(k.as_str())
        } else {
            c.peek_mut::<String>(&k)
        }
    }
    fn contains<C: Cache<Self, TVal>>(c: &C, p: u16, b: bool) -> bool {
        let k = skey(p);
        if b {
            c.contains::<str>(k.as_str())
        } else {
            c.contains::<String>(&k)
        }
    }
    fn remove<C: Cache<Self, TVal>>(c: &mut C, p: u16, b: bool) -> Option<TVal> {
        let k = skey(p);
        if b {
            c.remove::<str>(k.as_str())
        } else {
            c.remove::<String>(&k)
        }
    }
}

// ---------------------------------------------------------------------------------------
// hashers

/// which BuildHasher a list uses
#[derive(Clone)]
pub enum HS {
    Fnv(u64),
    Ident,
    Zero,
    Random(caches::DefaultHashBuilder),
    /// (calls so far, period): reseeds itself every `period` calls
    Chaos(std::cell::Cell<u64>, u64),
}

pub enum HH {
    Fnv(u64),
    Ident(u64),
    Zero,
    Random(<caches::DefaultHashBuilder as BuildHasher>::Hasher),
}

impl BuildHasher for HS {
    type Hasher = HH;
    fn build_hasher(&self) -> HH {
        point(Point::BuildHasher);
        match self {
            HS::Fnv(seed) => HH::Fnv(0xcbf29ce484222325 ^ seed.wrapping_mul(0x9E3779B97F4A7C15)),
            HS::Ident => HH::Ident(0),
            HS::Zero => HH::Zero,
            HS::Random(r) => HH::Random(r.build_hasher()),
            HS::Chaos(c, period) => {
                let n = c.get();
                c.set(n + 1);
                HH::Fnv(0xcbf29ce484222325 ^ (n / (*period).max(1)).wrapping_mul(0x9E3779B97F4A7C15))
            }
        }
    }
}

impl Hasher for HH {
    fn finish(&self) -> u64 {
        point(Point::HasherFinish);
        match self {
            HH::Fnv(s) => *s,
            HH::Ident(s) => *s,
            HH::Zero => 0,
            HH::Random(h) => h.finish(),
        }
    }
    fn write(&mut self, b: &[u8]) {
        match self {
            HH::Fnv(s) => {
                for x in b {
                    *s = (*s ^ *x as u64).wrapping_mul(0x100000001b3);
                }
            }
            HH::Ident(s) => {
                for x in b {
                    *s = (*s << 8) | *x as u64;
                }
            }
            HH::Zero => {}
            HH::Random(h) => h.write(b),
        }
    }
    fn write_u16(&mut self, i: u16) {
        match self {
            HH::Ident(s) => *s = i as u64,
            _ => self.write(&i.to_le_bytes()),
        }
    }
}

/// KeyHasher for W-TinyLFU / TinyLFU
pub enum KHS<K: Hash + Eq> {
    Default(DefaultKeyHasher<K>),
    Ident,
    Const,
    Fnv(u64),
}

impl<K: Hash + Eq + Clone> Clone for KHS<K> {
    fn clone(&self) -> Self {
        match self {
            KHS::Default(d) => KHS::Default(d.clone()),
            KHS::Ident => KHS::Ident,
            KHS::Const => KHS::Const,
            KHS::Fnv(s) => KHS::Fnv(*s),
        }
    }
}

impl<K: Hash + Eq> KeyHasher<K> for KHS<K> {
    fn hash_key<Q>(&self, key: &Q) -> u64
    where
        K: Borrow<Q>,
        Q: Hash + Eq + ?Sized,
    {
        point(Point::KeyHasher);
        match self {
            KHS::Default(d) => d.hash_key(key),
            KHS::Ident => {
                let mut h = HH::Ident(0);
                key.hash(&mut h);
                match h {
                    HH::Ident(s) => s,
                    _ => 0,
                }
            }
            KHS::Const => 42,
            KHS::Fnv(seed) => {
                let mut h = HH::Fnv(0xcbf29ce484222325 ^ seed.wrapping_mul(0x9E3779B97F4A7C15));
                key.hash(&mut h);
                match h {
                    HH::Fnv(s) => s,
                    _ => 0,
                }
            }
        }
    }
}

// ---------------------------------------------------------------------------------------
// recording eviction callback

pub struct RecCb {
    pub id: usize,
}

impl RecCb {
    pub fn new() -> Self {
        let id = CB_LOGS.with(|l| {
            let mut l = l.borrow_mut();
            l.push(Vec::new());
            l.len() - 1
        });
        RecCb { id }
    }
}

impl Clone for RecCb {
    fn clone(&self) -> Self {
        RecCb::new()
    }
}

/// a zero-sized recording callback (a unit struct, as a client reporting into a global
/// journal would write it); all its instances share one per-thread log, id `ZST_CB`
#[derive(Clone)]
pub struct RecCbZ;
pub const ZST_CB: usize = usize::MAX;
thread_local! {
    static ZLOG: RefCell<Vec<(u16, u32)>> = RefCell::new(Vec::new());
}

impl OnEvictCallback for RecCbZ {
    fn on_evict<K, V>(&self, key: &K, val: &V) {
        point(Point::Callback);
        let (p, t) = decode_kv(key, val);
        ZLOG.with(|l| l.borrow_mut().push((p, t)));
    }
}

fn decode_kv<K, V>(key: &K, val: &V) -> (u16, u32) {
    let kn = std::any::type_name::<K>();
    let p = if kn == std::any::type_name::<TKey>() && std::mem::size_of::<K>() == std::mem::size_of::<TKey>() {
        unsafe { &*(key as *const K as *const TKey) }.read()
    } else if kn == std::any::type_name::<String>() {
        skey_payload(unsafe { &*(key as *const K as *const String) })
    } else {
        u16::MAX
    };
    let t = if std::any::type_name::<V>() == std::any::type_name::<TVal>() {
        unsafe { &*(val as *const V as *const TVal) }.read()
    } else {
        u32::MAX
    };
    (p, t)
}

/// id of the most recently created callback log (the clone's, right after a clone)
pub fn last_cb_id() -> Option<usize> {
    CB_LOGS.with(|l| l.borrow().len().checked_sub(1))
}

pub fn clear_cb_logs() {
    ZLOG.with(|l| l.borrow_mut().clear());
    CB_LOGS.with(|l| l.borrow_mut().clear());
}

pub fn take_cb_log(id: usize) -> Vec<(u16, u32)> {
    if id == ZST_CB {
        // drain (keep the buffer): the shared log must never allocate inside a case, or the
        // block counts of C04 would see it
        return ZLOG.with(|l| l.borrow_mut().drain(..).collect());
    }
    CB_LOGS.with(|l| l.borrow_mut().get_mut(id).map(std::mem::take).unwrap_or_default())
}

impl OnEvictCallback for RecCb {
    fn on_evict<K, V>(&self, key: &K, val: &V) {
        point(Point::Callback);
        // the trait method is unbounded-generic: give it meaning by a type-name guarded cast
        let kn = std::any::type_name::<K>();
        let p = if kn == std::any::type_name::<TKey>() && std::mem::size_of::<K>() == std::mem::size_of::<TKey>() {
            unsafe { &*(key as *const K as *const TKey) }.read()
        } else if kn == std::any::type_name::<String>() {
            skey_payload(unsafe { &*(key as *const K as *const String) })
        } else {
            u16::MAX
        };
        let t = if std::any::type_name::<V>() == std::any::type_name::<TVal>() {
            unsafe { &*(val as *const V as *const TVal) }.read()
        } else {
            u32::MAX
        };
        let id = self.id;
        CB_LOGS.with(|l| {
            if let Some(v) = l.borrow_mut().get_mut(id) {
                v.push((p, t))
            }
        });
    }
}

// ---------------------------------------------------------------------------------------
// panic capture

thread_local! {
    static LAST_PANIC: RefCell<Option<(String, String)>> = const { RefCell::new(None) };
}

/// install a silent panic hook that remembers (location, message) per thread
pub fn install_panic_hook() {
    std::panic::set_hook(Box::new(|info| {
        let loc = info.location().map(|l| format!("{}:{}", l.file(), l.line())).unwrap_or_default();
        let msg = if let Some(s) = info.payload().downcast_ref::<&str>() {
            s.to_string()
        } else if let Some(s) = info.payload().downcast_ref::<String>() {
            s.clone()
        } else {
            String::from("<non-string panic>")
        };
        if std::env::var_os("VH_PANIC_TRACE").is_some() {
            eprintln!("panic at {}: {}", loc, msg);
        }
        let _ = LAST_PANIC.try_with(|p| *p.borrow_mut() = Some((loc, msg)));
    }));
}

pub fn take_last_panic() -> Option<(String, String)> {
    LAST_PANIC.with(|p| p.borrow_mut().take())
}
