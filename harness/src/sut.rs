//! The system under test: one wrapper over the seven ways a cache is constructed, applying
//! `Op`s through the public API only, and taking state views through the verification hooks.

use crate::inst::*;
use crate::ops::*;
use caches::lfu::KeyHasher;
use caches::*;
use std::hash::BuildHasher;

pub fn mk_hs(s: HSpec) -> HS {
    match s {
        HSpec::Fnv(x) => HS::Fnv(x),
        HSpec::Ident => HS::Ident,
        HSpec::Zero => HS::Zero,
        HSpec::Random => HS::Random(caches::DefaultHashBuilder::default()),
        HSpec::Chaos(n) => HS::Chaos(std::cell::Cell::new(0), n as u64),
    }
}

pub fn mk_khs<K: KeyLike>(s: KhSpec) -> KHS<K> {
    match s {
        KhSpec::Default => KHS::Default(Default::default()),
        KhSpec::Ident => KHS::Ident,
        KhSpec::Const => KHS::Const,
        KhSpec::Fnv(x) => KHS::Fnv(x),
    }
}

pub type LruH<K> = RawLRU<K, TVal, DefaultEvictCallback, HS>;
pub type LruCbH<K> = RawLRU<K, TVal, RecCb, HS>;
pub type LruCbD<K> = RawLRU<K, TVal, RecCbZ, caches::DefaultHashBuilder>;
pub type SegC<K> = SegmentedCache<K, TVal, HS, HS>;
pub type TwoQC<K> = TwoQueueCache<K, TVal, HS, HS, HS>;
pub type ArcC<K> = AdaptiveCache<K, TVal, HS, HS, HS, HS>;
pub type WtlC<K> = WTinyLFUCache<K, TVal, KHS<K>, HS, HS, HS>;

pub enum SutC<K: KeyLike> {
    Lru(LruH<K>),
    LruCb(LruCbH<K>),
    LruCbD(LruCbD<K>),
    Seg(SegC<K>),
    TwoQ(TwoQC<K>),
    Arc(ArcC<K>),
    Wtl(WtlC<K>),
}

pub struct Sut<K: KeyLike> {
    pub kind: Kind,
    pub c: SutC<K>,
    /// callback log id (kinds with a callback)
    pub cb: Option<usize>,
}

#[derive(Clone, Debug, PartialEq)]
pub struct View {
    /// every inner list, most recent first, (key payload, value token), via raw-link walk
    pub lists: Vec<Vec<(u16, u32)>>,
    pub p: usize,
    pub est: Option<Vec<u8>>,
}

impl View {
    pub fn resident(&self, kind: Kind) -> impl Iterator<Item = &(u16, u32)> {
        self.lists[..kind.n_resident_lists()].iter().flatten()
    }
    pub fn all(&self) -> impl Iterator<Item = &(u16, u32)> {
        self.lists.iter().flatten()
    }
    pub fn find(&self, k: u16) -> Option<(usize, usize, u32)> {
        for (li, l) in self.lists.iter().enumerate() {
            if let Some(pos) = l.iter().position(|e| e.0 == k) {
                return Some((li, pos, l[pos].1));
            }
        }
        None
    }
    pub fn resident_len(&self, kind: Kind) -> usize {
        self.lists[..kind.n_resident_lists()].iter().map(|l| l.len()).sum()
    }
}

fn conv_pr<K: KeyLike>(p: PutResult<K, TVal>) -> PR {
    match p {
        PutResult::Put => PR::Put,
        PutResult::Update(v) => PR::Update(v.read()),
        PutResult::Evicted { key, value } => PR::Evicted(key.payload(), value.read()),
        PutResult::EvictedAndUpdate { evicted, update } => {
            PR::EvictedAndUpdate((evicted.0.payload(), evicted.1.read()), update.read())
        }
    }
}

fn walk<K: KeyLike, E: OnEvictCallback, S: BuildHasher>(c: &RawLRU<K, TVal, E, S>) -> Vec<(u16, u32)> {
    let mut v = Vec::new();
    c.verif_walk(|k, val| v.push((k.payload(), val.read())));
    v
}

fn walk_ids<K: KeyLike, E: OnEvictCallback, S: BuildHasher>(c: &RawLRU<K, TVal, E, S>, out: &mut Vec<u32>) {
    c.verif_walk(|k, val| {
        let _ = k.payload();
        let _ = val.read();
        if let Some(id) = k.ident() {
            out.push(id);
        }
        out.push(val.id());
    });
}

// ------------------------------------------------------------------ iterator walking

fn step_iter<I, F>(it: &mut I, pat: &[bool], i: usize, j0: usize, write: bool, f: &mut F) -> Vec<IterEv>
where
    I: DoubleEndedIterator + ExactSizeIterator,
    F: FnMut(I::Item, Option<u32>) -> (i32, i64),
{
    let mut evs = Vec::new();
    for (j, front) in pat.iter().enumerate() {
        let item = if *front { it.next() } else { it.next_back() };
        let w = if write { Some(token(i, j0 + j)) } else { None };
        let item = item.map(|x| f(x, w));
        evs.push(IterEv { front: *front, item, hint: it.size_hint(), len: it.len() });
    }
    evs
}

fn fused_check<I: DoubleEndedIterator + ExactSizeIterator>(it: &mut I) -> bool {
    if it.len() != 0 {
        return true;
    }
    it.next().is_none() && it.next_back().is_none() && it.next().is_none() && it.next_back().is_none() && it.len() == 0
}

fn run_shared<I, F>(it: I, pat: &[bool], clone_at: u8, i: usize, fin: u8, mut f: F) -> IterOut
where
    I: DoubleEndedIterator + ExactSizeIterator + Clone,
    F: FnMut(I::Item, Option<u32>) -> (i32, i64),
{
    let mut it = it;
    let initial_hint = it.size_hint();
    let ca = clone_at as usize;
    if ca <= pat.len() {
        let mut evs = step_iter(&mut it, &pat[..ca], i, 0, false, &mut f);
        let mut cl = it.clone();
        evs.extend(step_iter(&mut it, &pat[ca..], i, ca, false, &mut f));
        let rev: Vec<bool> = pat[ca..].iter().rev().map(|b| !*b).collect();
        let clone_evs = step_iter(&mut cl, &rev, i, 0, false, &mut f);
        let fused_ok = fused_check(&mut it) && fused_check(&mut cl);
        let (fin_items, fin_lens, count_rest) = iter_finish(it, fin, &mut |x| f(x, None));
        IterOut { initial_hint, evs, clone_evs, count_rest, clone_count_rest: cl.count(), fused_ok, fin_items, fin_lens }
    } else {
        let evs = step_iter(&mut it, pat, i, 0, false, &mut f);
        let fused_ok = fused_check(&mut it);
        let (fin_items, fin_lens, count_rest) = iter_finish(it, fin, &mut |x| f(x, None));
        IterOut { initial_hint, evs, clone_evs: vec![], count_rest, clone_count_rest: 0, fused_ok, fin_items, fin_lens }
    }
}

fn run_excl<I, F>(it: I, pat: &[bool], write: bool, i: usize, fin: u8, mut f: F) -> IterOut
where
    I: DoubleEndedIterator + ExactSizeIterator,
    F: FnMut(I::Item, Option<u32>) -> (i32, i64),
{
    let mut it = it;
    let initial_hint = it.size_hint();
    let evs = step_iter(&mut it, pat, i, 0, write, &mut f);
    let fused_ok = fused_check(&mut it);
    let (fin_items, fin_lens, count_rest) = iter_finish(it, fin, &mut |x| f(x, None));
    IterOut { initial_hint, evs, clone_evs: vec![], count_rest, clone_count_rest: 0, fused_ok, fin_items, fin_lens }
}

fn kv<K: KeyLike>(x: (&K, &TVal), _w: Option<u32>) -> (i32, i64) {
    (x.0.payload() as i32, x.1.read() as i64)
}
fn kvm<K: KeyLike>(x: (&K, &mut TVal), w: Option<u32>) -> (i32, i64) {
    if let Some(t) = w {
        x.1.write(t);
    }
    (x.0.payload() as i32, x.1.read() as i64)
}
fn ko<K: KeyLike>(x: &K, _w: Option<u32>) -> (i32, i64) {
    (x.payload() as i32, -1)
}
fn vo(x: &TVal, _w: Option<u32>) -> (i32, i64) {
    (-1, x.read() as i64)
}
fn vom(x: &mut TVal, w: Option<u32>) -> (i32, i64) {
    if let Some(t) = w {
        x.write(t);
    }
    (-1, x.read() as i64)
}

/// dispatch the ten per-list iterator families of TwoQueueCache / AdaptiveCache
macro_rules! list_iters {
    ($c:expr, $fam:expr, $pat:expr, $ca:expr, $w:expr, $i:expr, $fin:expr,
     $iter:ident, $iter_lru:ident, $iter_mut:ident, $iter_lru_mut:ident, $keys:ident, $keys_lru:ident,
     $values:ident, $values_lru:ident, $values_mut:ident, $values_lru_mut:ident) => {
        match $fam {
            0 => run_shared($c.$iter(), $pat, $ca, $i, $fin, kv::<K>),
            1 => run_shared($c.$iter_lru(), $pat, $ca, $i, $fin, kv::<K>),
            2 => run_excl($c.$iter_mut(), $pat, $w, $i, $fin, kvm::<K>),
            3 => run_excl($c.$iter_lru_mut(), $pat, $w, $i, $fin, kvm::<K>),
            4 => run_shared($c.$keys(), $pat, $ca, $i, $fin, ko::<K>),
            5 => run_shared($c.$keys_lru(), $pat, $ca, $i, $fin, ko::<K>),
            6 => run_shared($c.$values(), $pat, $ca, $i, $fin, vo),
            7 => run_shared($c.$values_lru(), $pat, $ca, $i, $fin, vo),
            8 => run_excl($c.$values_mut(), $pat, $w, $i, $fin, vom),
            _ => run_excl($c.$values_lru_mut(), $pat, $w, $i, $fin, vom),
        }
    };
}

fn lru_iter<K: KeyLike, E: OnEvictCallback, S: BuildHasher>(
    c: &mut RawLRU<K, TVal, E, S>,
    fam: u8,
    pat: &[bool],
    ca: u8,
    w: bool,
    i: usize,
    fin: u8,
) -> IterOut {
    match fam {
        10 => run_shared((&*c).into_iter(), pat, ca, i, fin, kv::<K>),
        11 => run_excl((&mut *c).into_iter(), pat, w, i, fin, kvm::<K>),
        f => list_iters!(
            c, f, pat, ca, w, i, fin, iter, iter_lru, iter_mut, iter_lru_mut, keys, keys_lru, values, values_lru,
            values_mut, values_lru_mut
        ),
    }
}

// ------------------------------------------------------------------ Cache-trait ops

fn cache_op<K: KeyLike, C: Cache<K, TVal>>(c: &mut C, op: &Op, i: usize) -> Option<Out> {
    Some(match op {
        Op::Put(k) => Out::Put(conv_pr(c.put(K::make(*k), TVal::new(token(i, 0))))),
        Op::Get(k, b) => Out::V(K::get(c, *k, *b).map(|v| v.read())),
        Op::GetMut(k, b, w) => Out::V(K::get_mut(c, *k, *b).map(|v| {
            let old = v.read();
            if *w {
                v.write(token(i, 0));
            }
            old
        })),
        Op::Peek(k, b) => Out::V(K::peek(c, *k, *b).map(|v| v.read())),
        Op::PeekMut(k, b, w) => Out::V(K::peek_mut(c, *k, *b).map(|v| {
            let old = v.read();
            if *w {
                v.write(token(i, 0));
            }
            old
        })),
        Op::Contains(k, b) => Out::Bool(K::contains(c, *k, *b)),
        Op::Remove(k, b) => Out::V(K::remove(c, *k, *b).map(|v| v.read())),
        Op::Purge => {
            c.purge();
            Out::Unit
        }
        Op::Len => Out::Num(c.len() as u64),
        Op::Cap => Out::Num(c.cap() as u64),
        Op::IsEmpty => Out::Bool(c.is_empty()),
        _ => return None,
    })
}

fn kvo<K: KeyLike>(x: Option<(&K, &TVal)>) -> Out {
    Out::KV(x.map(|(k, v)| (k.payload(), v.read())))
}
fn kvmo<K: KeyLike>(x: Option<(&K, &mut TVal)>, w: bool, i: usize) -> Out {
    Out::KV(x.map(|(k, v)| {
        let old = v.read();
        if w {
            v.write(token(i, 0));
        }
        (k.payload(), old)
    }))
}

fn lru_op<K: KeyLike, E: OnEvictCallback, S: BuildHasher>(c: &mut RawLRU<K, TVal, E, S>, op: &Op, i: usize) -> Out {
    if let Some(o) = cache_op::<K, _>(c, op, i) {
        return o;
    }
    match op {
        Op::Lens => Out::Nums(vec![c.len() as u64, c.cap() as u64]),
        Op::Debug => Out::Text(format!("{:?}", c)),
        Op::Resize(n) => Out::Num(c.resize(resize_target(*n))),
        Op::GetLru => kvo(c.get_lru()),
        Op::GetMru => kvo(c.get_mru()),
        Op::GetLruMut(w) => kvmo(c.get_lru_mut(), *w, i),
        Op::GetMruMut(w) => kvmo(c.get_mru_mut(), *w, i),
        Op::PeekLru => kvo(c.peek_lru()),
        Op::PeekMru => kvo(c.peek_mru()),
        Op::PeekLruMut(w) => kvmo(c.peek_lru_mut(), *w, i),
        Op::PeekMruMut(w) => kvmo(c.peek_mru_mut(), *w, i),
        Op::PeekOrPut(k) => {
            let (a, b) = c.peek_or_put(K::make(*k), TVal::new(token(i, 0)));
            Out::OrPut(a.map(|v| v.read()), b.map(conv_pr))
        }
        Op::PeekMutOrPut(k, w) => {
            let (a, b) = c.peek_mut_or_put(K::make(*k), TVal::new(token(i, 0)));
            Out::OrPut(
                a.map(|v| {
                    let old = v.read();
                    if *w {
                        v.write(token(i, 1));
                    }
                    old
                }),
                b.map(conv_pr),
            )
        }
        Op::ContainsOrPut(k) => {
            let (a, b) = c.contains_or_put(K::make(*k), TVal::new(token(i, 0)));
            Out::ContainsOrPut(a, b.map(conv_pr))
        }
        Op::RemoveLru => Out::KV(c.remove_lru().map(|(k, v)| (k.payload(), v.read()))),
        Op::Iter { list: 0, fam, pat, clone_at, write, fin } => Out::Iter(lru_iter(c, *fam, pat, *clone_at, *write, i, *fin)),
        _ => Out::Unsupported,
    }
}

impl<K: KeyLike> Sut<K> {
    pub fn build(kind: Kind, cfg: &Cfg) -> Result<Sut<K>, String> {
        let h = |i: usize| mk_hs(cfg.hs[i]);
        let mut cb = None;
        let c = match kind {
            Kind::Lru => SutC::Lru(RawLRU::with_hasher(cfg.a, h(0)).map_err(|e| e.to_string())?),
            Kind::LruCb => {
                let r = RecCb::new();
                cb = Some(r.id);
                SutC::LruCb(RawLRU::with_on_evict_cb_and_hasher(cfg.a, r, h(0)).map_err(|e| e.to_string())?)
            }
            Kind::LruCbD => {
                // default hasher + a zero-sized callback type
                let _ = take_cb_log(ZST_CB);
                cb = Some(ZST_CB);
                SutC::LruCbD(RawLRU::with_on_evict_cb(cfg.a, RecCbZ).map_err(|e| e.to_string())?)
            }
            // Builders: four call sequences per kind (entry point, order of the setters, values
            // set twice). Every sequence ends in the same configuration, so all oracles apply.
            Kind::Seg => SutC::Seg(
                match cfg.perm % 4 {
                    0 => SegmentedCacheBuilder::new(cfg.a, cfg.b).set_probationary_hasher(h(0)).set_protected_hasher(h(1)).finalize(),
                    1 => SegmentedCacheBuilder::default()
                        .set_protected_hasher(h(1))
                        .set_protected_size(cfg.b)
                        .set_probationary_hasher(h(0))
                        .set_probationary_size(cfg.a)
                        .finalize(),
                    2 => SegmentedCacheBuilder::new(cfg.b + 5, cfg.a + 9)
                        .set_probationary_size(cfg.a)
                        .set_protected_hasher(h(1))
                        .set_protected_size(cfg.b)
                        .set_probationary_hasher(h(0))
                        .finalize(),
                    _ => SegmentedCache::from_builder(
                        SegmentedCache::<K, TVal>::builder(cfg.a, cfg.b + 3).set_probationary_hasher(h(0)).set_protected_hasher(h(1)).set_protected_size(cfg.b),
                    ),
                }
                .map_err(|e| e.to_string())?,
            ),
            Kind::TwoQ => SutC::TwoQ(
                match cfg.perm % 4 {
                    0 => TwoQueueCacheBuilder::new(cfg.a)
                        .set_recent_ratio(cfg.rr)
                        .set_ghost_ratio(cfg.gr)
                        .set_recent_hasher(h(0))
                        .set_frequent_hasher(h(1))
                        .set_ghost_hasher(h(2))
                        .finalize(),
                    1 => TwoQueueCacheBuilder::default()
                        .set_ghost_hasher(h(2))
                        .set_size(cfg.a)
                        .set_frequent_hasher(h(1))
                        .set_ghost_ratio(cfg.gr)
                        .set_recent_hasher(h(0))
                        .set_recent_ratio(cfg.rr)
                        .finalize(),
                    2 => TwoQueueCacheBuilder::new(cfg.a + 11)
                        .set_recent_ratio(cfg.rr)
                        .set_recent_hasher(h(0))
                        .set_ghost_ratio(cfg.gr)
                        .set_frequent_hasher(h(1))
                        .set_size(cfg.a)
                        .set_ghost_hasher(h(2))
                        .finalize(),
                    _ => TwoQueueCache::from_builder(
                        TwoQueueCache::<K, TVal>::builder(cfg.a)
                            .set_ghost_ratio(0.875)
                            .set_recent_ratio(0.125)
                            .set_frequent_hasher(h(1))
                            .set_ghost_hasher(h(2))
                            .set_recent_hasher(h(0))
                            .set_ghost_ratio(cfg.gr)
                            .set_recent_ratio(cfg.rr),
                    ),
                }
                .map_err(|e| e.to_string())?,
            ),
            Kind::Arc => SutC::Arc(
                match cfg.perm % 4 {
                    0 => AdaptiveCacheBuilder::new(cfg.a)
                        .set_recent_hasher(h(0))
                        .set_frequent_hasher(h(1))
                        .set_recent_evict_hasher(h(2))
                        .set_frequent_evict_hasher(h(3))
                        .finalize(),
                    1 => AdaptiveCacheBuilder::default()
                        .set_frequent_evict_hasher(h(3))
                        .set_size(cfg.a)
                        .set_recent_evict_hasher(h(2))
                        .set_frequent_hasher(h(1))
                        .set_recent_hasher(h(0))
                        .finalize(),
                    2 => AdaptiveCacheBuilder::new(cfg.a + 13)
                        .set_frequent_hasher(h(1))
                        .set_recent_hasher(h(0))
                        .set_frequent_evict_hasher(h(3))
                        .set_recent_evict_hasher(h(2))
                        .set_size(cfg.a)
                        .finalize(),
                    _ => AdaptiveCache::from_builder(
                        AdaptiveCache::<K, TVal>::builder(cfg.a + 1)
                            .set_recent_evict_hasher(h(2))
                            .set_size(cfg.a)
                            .set_frequent_evict_hasher(h(3))
                            .set_recent_hasher(h(0))
                            .set_frequent_hasher(h(1)),
                    ),
                }
                .map_err(|e| e.to_string())?,
            ),
            Kind::Wtl => {
                #[cfg(feature = "std")]
                caches::lfu::verif_pin_sketch_seed(cfg.sketch_seed);
                type B<K> = WTinyLFUCacheBuilder<K, KHS<K>, HS, HS, HS>;
                // a key hasher that is *not* the configured one (must have been replaced in the end)
                let other_kh = || mk_khs::<K>(if cfg.kh == KhSpec::Const { KhSpec::Ident } else { KhSpec::Const });
                let r = match cfg.perm % 4 {
                    0 => B::<K>::with_hashers(mk_khs::<K>(cfg.kh), h(2), h(1), h(0))
                        .set_window_cache_size(cfg.a)
                        .set_protected_cache_size(cfg.b)
                        .set_probationary_cache_size(cfg.c)
                        .set_samples(cfg.samples)
                        .set_false_positive_ratio(cfg.fp)
                        .finalize::<TVal>(),
                    1 => B::<K>::with_hashers(other_kh(), h(0), h(0), h(1))
                        .set_false_positive_ratio(cfg.fp)
                        .set_samples(cfg.samples)
                        .set_probationary_cache_size(cfg.c)
                        .set_protected_hasher(h(2))
                        .set_protected_cache_size(cfg.b)
                        .set_key_hasher(mk_khs::<K>(cfg.kh))
                        .set_window_cache_size(cfg.a)
                        .set_probationary_hasher(h(1))
                        .set_window_hasher(h(0))
                        .finalize::<TVal>(),
                    2 => B::<K>::with_hashers(other_kh(), h(2), h(1), h(0))
                        .set_window_cache_size(cfg.c + 3)
                        .set_protected_cache_size(cfg.a + 5)
                        .set_probationary_cache_size(cfg.b + 7)
                        .set_samples(cfg.samples + 11)
                        .set_false_positive_ratio(0.5)
                        .set_window_hasher(h(0))
                        .set_window_cache_size(cfg.a)
                        .set_probationary_hasher(h(1))
                        .set_probationary_cache_size(cfg.c)
                        .set_key_hasher(mk_khs::<K>(cfg.kh))
                        .set_samples(cfg.samples)
                        .set_protected_hasher(h(2))
                        .set_protected_cache_size(cfg.b)
                        .set_false_positive_ratio(cfg.fp)
                        .finalize::<TVal>(),
                    _ => WTinyLFUCache::from_builder(
                        B::<K>::with_hashers(mk_khs::<K>(cfg.kh), h(2), h(1), h(0))
                            .set_samples(cfg.samples)
                            .set_probationary_hasher(h(1))
                            .set_protected_cache_size(cfg.b)
                            .set_window_hasher(h(0))
                            .set_probationary_cache_size(cfg.c)
                            .set_protected_hasher(h(2))
                            .set_false_positive_ratio(cfg.fp)
                            .set_window_cache_size(cfg.a),
                    ),
                };
                #[cfg(feature = "std")]
                caches::lfu::verif_pin_sketch_seed(None);
                SutC::Wtl(r.map_err(|e| e.to_string())?)
            }
        };
        Ok(Sut { kind, c, cb })
    }

    /// apply one operation through the public API
    pub fn apply(&mut self, op: &Op, i: usize) -> Out {
        if !op.supported(self.kind) {
            return Out::Unsupported;
        }
        match op {
            Op::CloneSwap | Op::CloneDrop => return self.clone_op(matches!(op, Op::CloneSwap)),
            _ => {}
        }
        match &mut self.c {
            SutC::Lru(c) => lru_op(c, op, i),
            SutC::LruCb(c) => lru_op(c, op, i),
            SutC::LruCbD(c) => lru_op(c, op, i),
            SutC::Seg(c) => {
                if let Some(o) = cache_op::<K, _>(c, op, i) {
                    return o;
                }
                match op {
                    Op::Lens => Out::Nums(vec![
                        c.probationary_len() as u64,
                        c.protected_len() as u64,
                        c.probationary_cap() as u64,
                        c.protected_cap() as u64,
                    ]),
                    Op::PutProtected(k) => Out::Put(conv_pr(c.put_protected(K::make(*k), TVal::new(token(i, 0))))),
                    Op::RemoveLruFrom(0) => {
                        Out::KV(c.remove_lru_from_probationary().map(|(k, v)| (k.payload(), v.read())))
                    }
                    Op::RemoveLruFrom(_) => Out::KV(c.remove_lru_from_protected().map(|(k, v)| (k.payload(), v.read()))),
                    Op::SegPeek { seg, mru, mutable, write } => match (*seg, *mru, *mutable) {
                        (0, false, false) => kvo(c.peek_lru_from_probationary()),
                        (0, false, true) => kvmo(c.peek_lru_mut_from_probationary(), *write, i),
                        (0, true, false) => kvo(c.peek_mru_from_probationary()),
                        (0, true, true) => kvmo(c.peek_mru_mut_from_probationary(), *write, i),
                        (_, false, false) => kvo(c.peek_lru_from_protected()),
                        (_, false, true) => kvmo(c.peek_lru_mut_from_protected(), *write, i),
                        (_, true, false) => kvo(c.peek_mru_from_protected()),
                        (_, true, true) => kvmo(c.peek_mru_mut_from_protected(), *write, i),
                    },
                    _ => Out::Unsupported,
                }
            }
            SutC::TwoQ(c) => {
                if let Some(o) = cache_op::<K, _>(c, op, i) {
                    return o;
                }
                match op {
                    Op::Lens => {
                        Out::Nums(vec![c.recent_len() as u64, c.frequent_len() as u64, c.ghost_len() as u64])
                    }
                    Op::Debug => Out::Text(format!("{:?}", c)),
                    Op::Iter { list, fam, pat, clone_at, write, fin } => {
                        let (f, p, ca, w, fin) = (*fam, &pat[..], *clone_at, *write, *fin);
                        Out::Iter(match list {
                            0 => list_iters!(
                                c, f, p, ca, w, i, fin, recent_iter, recent_iter_lru, recent_iter_mut, recent_iter_lru_mut,
                                recent_keys, recent_keys_lru, recent_values, recent_values_lru, recent_values_mut,
                                recent_values_lru_mut
                            ),
                            1 => list_iters!(
                                c, f, p, ca, w, i, fin, frequent_iter, frequent_iter_lru, frequent_iter_mut,
                                frequent_iter_lru_mut, frequent_keys, frequent_keys_lru, frequent_values,
                                frequent_values_lru, frequent_values_mut, frequent_values_lru_mut
                            ),
                            _ => list_iters!(
                                c, f, p, ca, w, i, fin, ghost_iter, ghost_iter_lru, ghost_iter_mut, ghost_iter_lru_mut,
                                ghost_keys, ghost_keys_lru, ghost_values, ghost_values_lru, ghost_values_mut,
                                ghost_values_lru_mut
                            ),
                        })
                    }
                    _ => Out::Unsupported,
                }
            }
            SutC::Arc(c) => {
                if let Some(o) = cache_op::<K, _>(c, op, i) {
                    return o;
                }
                match op {
                    Op::Lens => Out::Nums(vec![
                        c.recent_len() as u64,
                        c.frequent_len() as u64,
                        c.recent_evict_len() as u64,
                        c.frequent_evict_len() as u64,
                        c.partition() as u64,
                    ]),
                    Op::Iter { list, fam, pat, clone_at, write, fin } => {
                        let (f, p, ca, w, fin) = (*fam, &pat[..], *clone_at, *write, *fin);
                        Out::Iter(match list {
                            0 => list_iters!(
                                c, f, p, ca, w, i, fin, recent_iter, recent_iter_lru, recent_iter_mut, recent_iter_lru_mut,
                                recent_keys, recent_keys_lru, recent_values, recent_values_lru, recent_values_mut,
                                recent_values_lru_mut
                            ),
                            1 => list_iters!(
                                c, f, p, ca, w, i, fin, frequent_iter, frequent_iter_lru, frequent_iter_mut,
                                frequent_iter_lru_mut, frequent_keys, frequent_keys_lru, frequent_values,
                                frequent_values_lru, frequent_values_mut, frequent_values_lru_mut
                            ),
                            2 => list_iters!(
                                c, f, p, ca, w, i, fin, recent_evict_iter, recent_evict_iter_lru, recent_evict_iter_mut,
                                recent_evict_iter_lru_mut, recent_evict_keys, recent_evict_keys_lru,
                                recent_evict_values, recent_evict_values_lru, recent_evict_values_mut,
                                recent_evict_values_lru_mut
                            ),
                            _ => list_iters!(
                                c, f, p, ca, w, i, fin, frequent_evict_iter, frequent_evict_iter_lru,
                                frequent_evict_iter_mut, frequent_evict_iter_lru_mut, frequent_evict_keys,
                                frequent_evict_keys_lru, frequent_evict_values, frequent_evict_values_lru,
                                frequent_evict_values_mut, frequent_evict_values_lru_mut
                            ),
                        })
                    }
                    _ => Out::Unsupported,
                }
            }
            SutC::Wtl(c) => {
                if let Some(o) = cache_op::<K, _>(c, op, i) {
                    return o;
                }
                match op {
                    Op::Lens => Out::Nums(vec![
                        c.window_cache_len() as u64,
                        c.main_cache_len() as u64,
                        c.window_cache_cap() as u64,
                        c.main_cache_cap() as u64,
                    ]),
                    _ => Out::Unsupported,
                }
            }
        }
    }

    fn clone_op(&mut self, swap: bool) -> Out {
        macro_rules! doit {
            ($c:expr, $variant:path) => {{
                let cl = $c.clone();
                if swap {
                    let new_cb = if self.cb == Some(ZST_CB) { Some(ZST_CB) } else if self.cb.is_some() { last_cb_id() } else { None };
                    self.c = $variant(cl);
                    if new_cb.is_some() {
                        self.cb = new_cb;
                    }
                } else {
                    drop(cl);
                }
            }};
        }
        match &self.c {
            SutC::Lru(c) => doit!(c, SutC::Lru),
            SutC::LruCb(c) => doit!(c, SutC::LruCb),
            SutC::LruCbD(c) => doit!(c, SutC::LruCbD),
            SutC::Seg(c) => doit!(c, SutC::Seg),
            SutC::Wtl(c) => doit!(c, SutC::Wtl),
            _ => return Out::Unsupported,
        }
        Out::Unit
    }

    /// an independent clone (C16); None for kinds that are not `Clone`
    pub fn try_clone(&self) -> Option<Sut<K>> {
        let has_cb = self.cb.is_some();
        let c = match &self.c {
            SutC::Lru(c) => SutC::Lru(c.clone()),
            SutC::LruCb(c) => SutC::LruCb(c.clone()),
            SutC::LruCbD(c) => SutC::LruCbD(c.clone()),
            SutC::Seg(c) => SutC::Seg(c.clone()),
            SutC::Wtl(c) => SutC::Wtl(c.clone()),
            _ => return None,
        };
        Some(Sut { kind: self.kind, c, cb: if self.cb == Some(ZST_CB) { Some(ZST_CB) } else if has_cb { last_cb_id() } else { None } })
    }

    /// `Clone::clone_from`: make `self` (any configuration of the same kind) a copy of `src`
    pub fn clone_from_other(&mut self, src: &Sut<K>) -> bool {
        let cb_before = last_cb_id();
        let ok = self.clone_from_inner(src);
        // `a.clone_from(&b)` must leave `a` with a clone of b's callback (Clone contract: same as
        // `a = b.clone()`): a recording callback is cloned by creating a new recorder
        if ok && src.cb.is_some() && src.cb != Some(ZST_CB) && last_cb_id() == cb_before {
            self.cb = None;
        }
        ok
    }

    fn clone_from_inner(&mut self, src: &Sut<K>) -> bool {
        match (&mut self.c, &src.c) {
            (SutC::Lru(a), SutC::Lru(b)) => a.clone_from(b),
            (SutC::LruCb(a), SutC::LruCb(b)) => a.clone_from(b),
            (SutC::LruCbD(a), SutC::LruCbD(b)) => a.clone_from(b),
            (SutC::Seg(a), SutC::Seg(b)) => a.clone_from(b),
            (SutC::Wtl(a), SutC::Wtl(b)) => a.clone_from(b),
            _ => return false,
        }
        if src.cb == Some(ZST_CB) {
            self.cb = Some(ZST_CB);
        } else if src.cb.is_some() {
            self.cb = last_cb_id();
        }
        true
    }

    pub fn view(&self) -> View {
        let mut est = None;
        let mut p = 0;
        let lists = match &self.c {
            SutC::Lru(c) => vec![walk(c)],
            SutC::LruCb(c) => vec![walk(c)],
            SutC::LruCbD(c) => vec![walk(c)],
            SutC::Seg(c) => vec![walk(c.verif_probationary()), walk(c.verif_protected())],
            SutC::TwoQ(c) => vec![walk(c.verif_recent()), walk(c.verif_frequent()), walk(c.verif_ghost())],
            SutC::Arc(c) => {
                p = c.partition();
                vec![
                    walk(c.verif_recent()),
                    walk(c.verif_frequent()),
                    walk(c.verif_recent_evict()),
                    walk(c.verif_frequent_evict()),
                ]
            }
            SutC::Wtl(c) => {
                est = Some(c.verif_estimator().verif_dump());
                vec![
                    walk(c.verif_window()),
                    walk(c.verif_main().verif_probationary()),
                    walk(c.verif_main().verif_protected()),
                ]
            }
        };
        View { lists, p, est }
    }

    /// registry ids of every key and value reachable through the cache (C04 ledger)
    pub fn ids(&self) -> Vec<u32> {
        let mut v = Vec::new();
        match &self.c {
            SutC::Lru(c) => walk_ids(c, &mut v),
            SutC::LruCb(c) => walk_ids(c, &mut v),
            SutC::LruCbD(c) => walk_ids(c, &mut v),
            SutC::Seg(c) => {
                walk_ids(c.verif_probationary(), &mut v);
                walk_ids(c.verif_protected(), &mut v);
            }
            SutC::TwoQ(c) => {
                walk_ids(c.verif_recent(), &mut v);
                walk_ids(c.verif_frequent(), &mut v);
                walk_ids(c.verif_ghost(), &mut v);
            }
            SutC::Arc(c) => {
                walk_ids(c.verif_recent(), &mut v);
                walk_ids(c.verif_frequent(), &mut v);
                walk_ids(c.verif_recent_evict(), &mut v);
                walk_ids(c.verif_frequent_evict(), &mut v);
            }
            SutC::Wtl(c) => {
                walk_ids(c.verif_window(), &mut v);
                walk_ids(c.verif_main().verif_probationary(), &mut v);
                walk_ids(c.verif_main().verif_protected(), &mut v);
            }
        }
        v
    }

    /// entries the hash indexes count but cannot find any more, summed over the inner lists
    /// (0 with a sound hash map; see `RawLRU::verif_index_lost`)
    pub fn index_lost(&self) -> usize {
        match &self.c {
            SutC::Lru(c) => c.verif_index_lost(),
            SutC::LruCb(c) => c.verif_index_lost(),
            SutC::LruCbD(c) => c.verif_index_lost(),
            SutC::Seg(c) => c.verif_probationary().verif_index_lost() + c.verif_protected().verif_index_lost(),
            SutC::TwoQ(c) => c.verif_recent().verif_index_lost() + c.verif_frequent().verif_index_lost() + c.verif_ghost().verif_index_lost(),
            SutC::Arc(c) => {
                c.verif_recent().verif_index_lost()
                    + c.verif_frequent().verif_index_lost()
                    + c.verif_recent_evict().verif_index_lost()
                    + c.verif_frequent_evict().verif_index_lost()
            }
            SutC::Wtl(c) => {
                c.verif_window().verif_index_lost() + c.verif_main().verif_probationary().verif_index_lost() + c.verif_main().verif_protected().verif_index_lost()
            }
        }
    }

    /// structural audit of every inner list
    pub fn audit(&self) -> Result<(), String> {
        let names = self.kind.list_names();
        let rs: Vec<Result<(), String>> = match &self.c {
            SutC::Lru(c) => vec![c.verif_audit()],
            SutC::LruCb(c) => vec![c.verif_audit()],
            SutC::LruCbD(c) => vec![c.verif_audit()],
            SutC::Seg(c) => vec![c.verif_probationary().verif_audit(), c.verif_protected().verif_audit()],
            SutC::TwoQ(c) => {
                vec![c.verif_recent().verif_audit(), c.verif_frequent().verif_audit(), c.verif_ghost().verif_audit()]
            }
            SutC::Arc(c) => vec![
                c.verif_recent().verif_audit(),
                c.verif_frequent().verif_audit(),
                c.verif_recent_evict().verif_audit(),
                c.verif_frequent_evict().verif_audit(),
            ],
            SutC::Wtl(c) => vec![
                c.verif_window().verif_audit(),
                c.verif_main().verif_probationary().verif_audit(),
                c.verif_main().verif_protected().verif_audit(),
            ],
        };
        for (i, r) in rs.into_iter().enumerate() {
            r.map_err(|e| format!("list `{}`: {}", names[i], e))?;
        }
        Ok(())
    }

    /// capacities of the inner lists as the *public* API reports them (None = not exposed)
    pub fn public_caps(&self) -> Vec<Option<usize>> {
        match &self.c {
            SutC::Lru(c) => vec![Some(c.cap())],
            SutC::LruCb(c) => vec![Some(c.cap())],
            SutC::LruCbD(c) => vec![Some(c.cap())],
            SutC::Seg(c) => vec![Some(c.probationary_cap()), Some(c.protected_cap())],
            SutC::TwoQ(_) => vec![None, None, None],
            SutC::Arc(_) => vec![None, None, None, None],
            SutC::Wtl(c) => vec![Some(c.window_cache_cap()), None, None],
        }
    }

    pub fn len(&self) -> usize {
        self.dispatch_cache(|c| c.len())
    }
    pub fn cap(&self) -> usize {
        self.dispatch_cache(|c| c.cap())
    }
    pub fn is_empty(&self) -> bool {
        self.dispatch_cache(|c| c.is_empty())
    }
    pub fn contains(&self, k: u16) -> bool {
        match &self.c {
            SutC::Lru(c) => K::contains(c, k, false),
            SutC::LruCb(c) => K::contains(c, k, false),
            SutC::LruCbD(c) => K::contains(c, k, false),
            SutC::Seg(c) => K::contains(c, k, false),
            SutC::TwoQ(c) => K::contains(c, k, false),
            SutC::Arc(c) => K::contains(c, k, false),
            SutC::Wtl(c) => K::contains(c, k, false),
        }
    }
    pub fn peek(&self, k: u16, b: bool) -> Option<u32> {
        match &self.c {
            SutC::Lru(c) => K::peek(c, k, b).map(|v| v.read()),
            SutC::LruCb(c) => K::peek(c, k, b).map(|v| v.read()),
            SutC::LruCbD(c) => K::peek(c, k, b).map(|v| v.read()),
            SutC::Seg(c) => K::peek(c, k, b).map(|v| v.read()),
            SutC::TwoQ(c) => K::peek(c, k, b).map(|v| v.read()),
            SutC::Arc(c) => K::peek(c, k, b).map(|v| v.read()),
            SutC::Wtl(c) => K::peek(c, k, b).map(|v| v.read()),
        }
    }

    fn dispatch_cache<R>(&self, f: impl Fn(&dyn CacheDyn) -> R) -> R {
        match &self.c {
            SutC::Lru(c) => f(&Dyn(c, std::marker::PhantomData::<K>)),
            SutC::LruCb(c) => f(&Dyn(c, std::marker::PhantomData::<K>)),
            SutC::LruCbD(c) => f(&Dyn(c, std::marker::PhantomData::<K>)),
            SutC::Seg(c) => f(&Dyn(c, std::marker::PhantomData::<K>)),
            SutC::TwoQ(c) => f(&Dyn(c, std::marker::PhantomData::<K>)),
            SutC::Arc(c) => f(&Dyn(c, std::marker::PhantomData::<K>)),
            SutC::Wtl(c) => f(&Dyn(c, std::marker::PhantomData::<K>)),
        }
    }

    /// W-TinyLFU only: the real estimator's current estimate for a key
    pub fn estimate(&self, k: u16) -> Option<u64> {
        match &self.c {
            SutC::Wtl(c) => Some(c.verif_estimator().estimate(&K::make(k))),
            _ => None,
        }
    }
    /// W-TinyLFU only: (hash of key, estimate, doorkeeper contains, (w, samples))
    pub fn est_probe(&self, k: u16) -> Option<(u64, u64, bool, (usize, usize))> {
        match &self.c {
            SutC::Wtl(c) => {
                let t = c.verif_estimator();
                let key = K::make(k);
                Some((t.hash_key(&key), t.estimate(&key), t.contains(&key), t.verif_window()))
            }
            _ => None,
        }
    }
    /// W-TinyLFU only: the comparison the admission filter makes (`lt(candidate, victim)`)
    pub fn est_lt(&self, a: u16, b: u16) -> Option<bool> {
        match &self.c {
            SutC::Wtl(c) => Some(c.verif_estimator().lt(&K::make(a), &K::make(b))),
            _ => None,
        }
    }
}

pub trait CacheDyn {
    fn len(&self) -> usize;
    fn cap(&self) -> usize;
    fn is_empty(&self) -> bool;
}
struct Dyn<'a, K, C>(&'a C, std::marker::PhantomData<K>);
impl<'a, K: KeyLike, C: Cache<K, TVal>> CacheDyn for Dyn<'a, K, C> {
    fn len(&self) -> usize {
        self.0.len()
    }
    fn cap(&self) -> usize {
        self.0.cap()
    }
    fn is_empty(&self) -> bool {
        self.0.is_empty()
    }
}

/// hash used by the estimator for key `k` under key-hasher spec `s` (for models)
pub fn key_hash<K: KeyLike>(kh: &KHS<K>, k: u16) -> u64 {
    kh.hash_key(&K::make(k))
}
