//! Case description: cache kind, configuration, hashers, key mode and the operation history.
//! Every combination of fields is a *valid* case (ops a kind does not have are skipped), so
//! configuration and history shrink independently.

use serde::{Deserialize, Serialize};

#[derive(Clone, Copy, Debug, PartialEq, Eq, Hash, Serialize, Deserialize, PartialOrd, Ord)]
pub enum Kind {
    /// RawLRU via `with_hasher` (no callback)
    Lru,
    /// RawLRU via `with_on_evict_cb_and_hasher`
    LruCb,
    /// RawLRU via `with_on_evict_cb` (default hasher)
    LruCbD,
    Seg,
    TwoQ,
    Arc,
    Wtl,
}

impl Kind {
    pub const ALL: [Kind; 7] = [Kind::Lru, Kind::LruCb, Kind::LruCbD, Kind::Seg, Kind::TwoQ, Kind::Arc, Kind::Wtl];
    pub fn is_lru(self) -> bool {
        matches!(self, Kind::Lru | Kind::LruCb | Kind::LruCbD)
    }
    pub fn has_cb(self) -> bool {
        matches!(self, Kind::LruCb | Kind::LruCbD)
    }
    pub fn cloneable(self) -> bool {
        !matches!(self, Kind::TwoQ | Kind::Arc)
    }
    pub fn has_iters(self) -> bool {
        self.is_lru() || matches!(self, Kind::TwoQ | Kind::Arc)
    }
    pub fn n_lists(self) -> usize {
        match self {
            Kind::Lru | Kind::LruCb | Kind::LruCbD => 1,
            Kind::Seg => 2,
            Kind::TwoQ => 3,
            Kind::Arc => 4,
            Kind::Wtl => 3,
        }
    }
    /// how many of the lists (from index 0) hold resident entries; the rest are ghosts
    pub fn n_resident_lists(self) -> usize {
        match self {
            Kind::TwoQ | Kind::Arc => 2,
            k => k.n_lists(),
        }
    }
    pub fn list_names(self) -> &'static [&'static str] {
        match self {
            Kind::Lru | Kind::LruCb | Kind::LruCbD => &["lru"],
            Kind::Seg => &["probationary", "protected"],
            Kind::TwoQ => &["recent", "frequent", "ghost"],
            Kind::Arc => &["recent", "frequent", "recent_evict", "frequent_evict"],
            Kind::Wtl => &["window", "probationary", "protected"],
        }
    }
    pub fn short(self) -> &'static str {
        match self {
            Kind::Lru => "lru",
            Kind::LruCb => "lru_cb",
            Kind::LruCbD => "lru_cb_default_hasher",
            Kind::Seg => "segmented",
            Kind::TwoQ => "two_queue",
            Kind::Arc => "adaptive",
            Kind::Wtl => "wtinylfu",
        }
    }
}

#[derive(Clone, Copy, Debug, PartialEq, Serialize, Deserialize)]
pub enum HSpec {
    Fnv(u64),
    Ident,
    Zero,
    Random,
    /// a BuildHasher that is *inconsistent* (safe but contract-breaking user code): it hands out
    /// a differently seeded hasher after every n-th call. Only memory safety can be demanded
    /// of a cache using it (C03: "no sequence of safe API calls ...").
    Chaos(u8),
}

#[derive(Clone, Copy, Debug, PartialEq, Serialize, Deserialize)]
pub enum KhSpec {
    Default,
    Ident,
    Const,
    Fnv(u64),
}

#[derive(Clone, Copy, Debug, PartialEq, Eq, Serialize, Deserialize)]
pub enum KeyMode {
    Tracked,
    Str,
}

/// configuration; fields are interpreted per kind:
/// Lru*: a = capacity. Seg: a = probationary, b = protected. TwoQ: a = size, rr, gr.
/// Arc: a = size. Wtl: a = window, b = protected, c = probationary, samples, fp, kh.
#[derive(Clone, Debug, PartialEq, Serialize, Deserialize)]
pub struct Cfg {
    pub a: usize,
    pub b: usize,
    pub c: usize,
    pub rr: f64,
    pub gr: f64,
    pub samples: usize,
    pub fp: f64,
    pub kh: KhSpec,
    /// one hasher spec per inner list (up to 4)
    pub hs: [HSpec; 4],
    /// pinned sketch seed (std build); None = clock-seeded
    pub sketch_seed: Option<u64>,
    /// which of four builder call sequences constructs the cache (entry point and the order
    /// of the setters; same configuration in the end)
    #[serde(default)]
    pub perm: u8,
}

impl Cfg {
    pub fn simple(a: usize) -> Cfg {
        Cfg {
            a,
            b: 1,
            c: 1,
            rr: 0.25,
            gr: 0.5,
            samples: 8,
            fp: 0.01,
            kh: KhSpec::Ident,
            hs: [HSpec::Fnv(1), HSpec::Fnv(2), HSpec::Fnv(3), HSpec::Fnv(4)],
            sketch_seed: Some(7),
            perm: 0,
        }
    }
    pub fn quota_2q(&self) -> usize {
        (self.a as f64 * self.rr).floor() as usize
    }
    pub fn ghost_cap_2q(&self) -> usize {
        (self.a as f64 * self.gr).floor() as usize
    }
    pub fn total_cap(&self, k: Kind) -> usize {
        match k {
            Kind::Lru | Kind::LruCb | Kind::LruCbD | Kind::TwoQ | Kind::Arc => self.a,
            Kind::Seg => self.a + self.b,
            Kind::Wtl => self.a + self.b + self.c,
        }
    }
}

/// iterator families (C14)
pub const FAMILIES: [&str; 12] = [
    "iter", "iter_lru", "iter_mut", "iter_lru_mut", "keys", "keys_lru", "values", "values_lru", "values_mut",
    "values_lru_mut", "into_iter_ref", "into_iter_mut",
];
pub fn fam_is_lru(f: u8) -> bool {
    matches!(f, 1 | 3 | 5 | 7 | 9)
}
pub fn fam_is_mut(f: u8) -> bool {
    matches!(f, 2 | 3 | 8 | 9 | 11)
}
pub fn fam_has_key(f: u8) -> bool {
    matches!(f, 0 | 1 | 2 | 3 | 4 | 5 | 10 | 11)
}
pub fn fam_has_val(f: u8) -> bool {
    matches!(f, 0 | 1 | 2 | 3 | 6 | 7 | 8 | 9 | 10 | 11)
}

#[derive(Clone, Debug, PartialEq, Serialize, Deserialize)]
pub enum Op {
    Put(u16),
    /// key, use the borrowed form
    Get(u16, bool),
    /// key, borrowed, write a fresh token through the reference
    GetMut(u16, bool, bool),
    Peek(u16, bool),
    PeekMut(u16, bool, bool),
    Contains(u16, bool),
    Remove(u16, bool),
    Purge,
    Len,
    Cap,
    IsEmpty,
    /// per-partition lengths / capacities / `partition()`
    Lens,
    Debug,
    // ---- RawLRU only
    Resize(u16),
    GetLru,
    GetMru,
    GetLruMut(bool),
    GetMruMut(bool),
    PeekLru,
    PeekMru,
    PeekLruMut(bool),
    PeekMruMut(bool),
    PeekOrPut(u16),
    PeekMutOrPut(u16, bool),
    ContainsOrPut(u16),
    RemoveLru,
    // ---- SegmentedCache only
    PutProtected(u16),
    /// 0 = probationary, 1 = protected
    RemoveLruFrom(u8),
    SegPeek { seg: u8, mru: bool, mutable: bool, write: bool },
    // ---- iterators (RawLRU, TwoQueue, Adaptive)
    /// `pat`: true = next, false = next_back; `clone_at`: step before which the iterator is
    /// cloned (shared iterators only; 255 = never); the clone is then driven by the reversed
    /// remaining pattern. `write`: write fresh tokens through a mutable iterator.
    /// `fin`: how the rest of the iterator is consumed after the `pat` steps (0 = `count()`;
    /// otherwise one of the std-provided consumption paths, see `iter_finish`)
    Iter {
        list: u8,
        fam: u8,
        pat: Vec<bool>,
        clone_at: u8,
        write: bool,
        #[serde(default)]
        fin: u8,
    },
    // ---- cloneable kinds
    /// clone, keep driving the clone, drop the original
    CloneSwap,
    /// clone and drop the clone at once
    CloneDrop,
}

impl Op {
    pub fn name(&self) -> &'static str {
        match self {
            Op::Put(_) => "put",
            Op::Get(..) => "get",
            Op::GetMut(..) => "get_mut",
            Op::Peek(..) => "peek",
            Op::PeekMut(..) => "peek_mut",
            Op::Contains(..) => "contains",
            Op::Remove(..) => "remove",
            Op::Purge => "purge",
            Op::Len => "len",
            Op::Cap => "cap",
            Op::IsEmpty => "is_empty",
            Op::Lens => "lens",
            Op::Debug => "debug",
            Op::Resize(_) => "resize",
            Op::GetLru => "get_lru",
            Op::GetMru => "get_mru",
            Op::GetLruMut(_) => "get_lru_mut",
            Op::GetMruMut(_) => "get_mru_mut",
            Op::PeekLru => "peek_lru",
            Op::PeekMru => "peek_mru",
            Op::PeekLruMut(_) => "peek_lru_mut",
            Op::PeekMruMut(_) => "peek_mru_mut",
            Op::PeekOrPut(_) => "peek_or_put",
            Op::PeekMutOrPut(..) => "peek_mut_or_put",
            Op::ContainsOrPut(_) => "contains_or_put",
            Op::RemoveLru => "remove_lru",
            Op::PutProtected(_) => "put_protected",
            Op::RemoveLruFrom(_) => "remove_lru_from",
            Op::SegPeek { .. } => "seg_peek",
            Op::Iter { .. } => "iter",
            Op::CloneSwap => "clone_swap",
            Op::CloneDrop => "clone_drop",
        }
    }
    pub const N_NAMES: usize = 32;
    pub fn idx(&self) -> u32 {
        match self {
            Op::Put(_) => 0,
            Op::Get(..) => 1,
            Op::GetMut(..) => 2,
            Op::Peek(..) => 3,
            Op::PeekMut(..) => 4,
            Op::Contains(..) => 5,
            Op::Remove(..) => 6,
            Op::Purge => 7,
            Op::Len => 8,
            Op::Cap => 9,
            Op::IsEmpty => 10,
            Op::Lens => 11,
            Op::Debug => 12,
            Op::Resize(_) => 13,
            Op::GetLru => 14,
            Op::GetMru => 15,
            Op::GetLruMut(_) => 16,
            Op::GetMruMut(_) => 17,
            Op::PeekLru => 18,
            Op::PeekMru => 19,
            Op::PeekLruMut(_) => 20,
            Op::PeekMruMut(_) => 21,
            Op::PeekOrPut(_) => 22,
            Op::PeekMutOrPut(..) => 23,
            Op::ContainsOrPut(_) => 24,
            Op::RemoveLru => 25,
            Op::PutProtected(_) => 26,
            Op::RemoveLruFrom(_) => 27,
            Op::SegPeek { .. } => 28,
            Op::Iter { .. } => 29,
            Op::CloneSwap => 30,
            Op::CloneDrop => 31,
        }
    }

    /// is this op supported by the kind (unsupported ops are skipped by real and model alike)
    pub fn supported(&self, k: Kind) -> bool {
        match self {
            Op::Put(_)
            | Op::Get(..)
            | Op::GetMut(..)
            | Op::Peek(..)
            | Op::PeekMut(..)
            | Op::Contains(..)
            | Op::Remove(..)
            | Op::Purge
            | Op::Len
            | Op::Cap
            | Op::IsEmpty
            | Op::Lens => true,
            Op::Debug => k.is_lru() || k == Kind::TwoQ,
            Op::Resize(_)
            | Op::GetLru
            | Op::GetMru
            | Op::GetLruMut(_)
            | Op::GetMruMut(_)
            | Op::PeekLru
            | Op::PeekMru
            | Op::PeekLruMut(_)
            | Op::PeekMruMut(_)
            | Op::PeekOrPut(_)
            | Op::PeekMutOrPut(..)
            | Op::ContainsOrPut(_)
            | Op::RemoveLru => k.is_lru(),
            Op::PutProtected(_) | Op::RemoveLruFrom(_) | Op::SegPeek { .. } => k == Kind::Seg,
            Op::Iter { list, fam, .. } => {
                k.has_iters() && (*list as usize) < k.n_lists() && (*fam < 10 || (k.is_lru() && *fam < 12))
            }
            Op::CloneSwap | Op::CloneDrop => k.cloneable(),
        }
    }

    /// read-only in the sense of C13 (never changes any later result)
    pub fn is_read_only(&self) -> bool {
        match self {
            Op::Peek(..) | Op::Contains(..) | Op::Len | Op::Cap | Op::IsEmpty | Op::Lens | Op::Debug => true,
            Op::PeekMut(_, _, w) => !*w,
            Op::GetMru | Op::PeekLru | Op::PeekMru => true,
            Op::GetMruMut(w) | Op::PeekLruMut(w) | Op::PeekMruMut(w) => !*w,
            Op::SegPeek { write, mutable, .. } => !(*mutable && *write),
            Op::Iter { fam, write, .. } => !(fam_is_mut(*fam) && *write),
            _ => false,
        }
    }

    pub fn key(&self) -> Option<u16> {
        match self {
            Op::Put(k)
            | Op::Get(k, _)
            | Op::GetMut(k, _, _)
            | Op::Peek(k, _)
            | Op::PeekMut(k, _, _)
            | Op::Contains(k, _)
            | Op::Remove(k, _)
            | Op::PeekOrPut(k)
            | Op::PeekMutOrPut(k, _)
            | Op::ContainsOrPut(k)
            | Op::PutProtected(k) => Some(*k),
            _ => None,
        }
    }
}

#[derive(Clone, Debug, PartialEq, Serialize, Deserialize)]
pub struct Case {
    pub kind: Kind,
    pub cfg: Cfg,
    pub keys: KeyMode,
    /// key alphabet size the history was generated over (informational; any u16 is valid)
    pub alphabet: u16,
    pub ops: Vec<Op>,
}

#[derive(Clone, Debug, PartialEq, Serialize, Deserialize)]
pub enum PR {
    Put,
    Update(u32),
    Evicted(u16, u32),
    EvictedAndUpdate((u16, u32), u32),
}

/// one step of an iterator walk: which end, what came out (-1 = component absent),
/// and the size_hint / len() reported afterwards
#[derive(Clone, Debug, PartialEq, Serialize, Deserialize)]
pub struct IterEv {
    pub front: bool,
    pub item: Option<(i32, i64)>,
    pub hint: (usize, Option<usize>),
    pub len: usize,
}

#[derive(Clone, Debug, PartialEq, Serialize, Deserialize)]
pub struct IterOut {
    pub initial_hint: (usize, Option<usize>),
    pub evs: Vec<IterEv>,
    /// steps of the clone taken at `clone_at` (empty if none)
    pub clone_evs: Vec<IterEv>,
    /// `count()` of what remained in the original / the clone after the walk
    pub count_rest: usize,
    pub clone_count_rest: usize,
    /// two extra calls after exhaustion must return None
    pub fused_ok: bool,
    /// what the `fin` consumption path produced (items in the order produced) and the
    /// lengths it observed on the way
    #[serde(default)]
    pub fin_items: Vec<(i32, i64)>,
    #[serde(default)]
    pub fin_lens: Vec<usize>,
}

pub const N_FIN: u8 = 13;
/// `fin >= FIN_EXT` selects the second family of consumption paths
pub const FIN_EXT: u8 = 221;
pub const N_FIN_EXT: u8 = 13;
pub const FIN_EXT_NAMES: [&str; 13] = ["for_each", "rev.for_each", "find", "rfind", "position", "any", "all", "max_by_key", "by_ref.rev.take.count+for_each", "nth(usize::MAX-k)", "nth_back(usize::MAX-k)", "skip(usize::MAX-k)", "step_by(usize::MAX-k)"];

pub fn fin_name(fin: u8) -> &'static str {
    if fin >= FIN_EXT {
        FIN_EXT_NAMES[((fin - FIN_EXT) % N_FIN_EXT) as usize]
    } else {
        FIN_NAMES[(fin % N_FIN) as usize]
    }
}
pub const FIN_NAMES: [&str; 13] = ["count", "last", "nth", "nth_back", "fold", "rev", "skip", "step_by", "by_ref.take.count", "rfold", "rev.last", "skip.next_back", "for-break-rev"];

/// Consume the rest of an iterator through one of the paths the standard library offers
/// besides next/next_back. The same function runs on the library's iterator and on a
/// `vec::IntoIter` of the expected remaining items: the Iterator contract (every provided
/// method behaves like its default implementation) is the oracle.
/// Returns (items produced, lengths observed, count of what is left at the very end).
pub fn iter_finish<I, F>(mut it: I, fin: u8, f: &mut F) -> (Vec<(i32, i64)>, Vec<usize>, usize)
where
    I: DoubleEndedIterator + ExactSizeIterator,
    F: FnMut(I::Item) -> (i32, i64),
{
    let m = it.len();
    let mut items = Vec::new();
    let mut lens = vec![m];
    if fin >= FIN_EXT {
        // second family (added later; encoded in the top of the range so that stored replays
        // keep their meaning): internal-iteration and searching methods
        let mode = (fin - FIN_EXT) % N_FIN_EXT;
        let k = ((fin - FIN_EXT) / N_FIN_EXT) as usize % (m + 2);
        let mut n = 0usize;
        match mode {
            0 => it.for_each(|x| items.push(f(x))),
            1 => it.rev().for_each(|x| items.push(f(x))),
            2 | 3 => {
                // find / rfind the k-th element from that end, then the rest
                let x = if mode == 2 {
                    it.find(|_| {
                        n += 1;
                        n > k
                    })
                } else {
                    it.rfind(|_| {
                        n += 1;
                        n > k
                    })
                };
                items.extend(x.map(&mut *f));
                lens.push(it.len());
                items.extend(it.map(&mut *f));
            }
            4 => {
                let p = it.position(|_| {
                    n += 1;
                    n > k
                });
                lens.push(p.map(|x| x + 1).unwrap_or(0));
                lens.push(it.len());
                items.extend(it.map(&mut *f));
            }
            5 | 6 => {
                let b = if mode == 5 {
                    it.any(|_| {
                        n += 1;
                        n > k
                    })
                } else {
                    it.all(|_| {
                        n += 1;
                        n <= k
                    })
                };
                lens.push(b as usize);
                lens.push(it.len());
                items.extend(it.rev().map(&mut *f));
            }
            7 => items.extend(
                it.max_by_key(|_| {
                    n += 1;
                    n
                })
                .map(&mut *f),
            ),
            8 => {
                // partial consumption from the back through an adaptor, then internal iteration
                let c = it.by_ref().rev().take(k).count();
                lens.push(c);
                lens.push(it.len());
                it.for_each(|x| items.push(f(x)));
            }
            // extreme skip counts (index arithmetic must not overflow)
            9 => {
                items.extend(it.nth(usize::MAX - k).map(&mut *f));
                lens.push(it.len());
                items.extend(it.map(&mut *f));
            }
            10 => {
                items.extend(it.nth_back(usize::MAX - k).map(&mut *f));
                lens.push(it.len());
                items.extend(it.map(&mut *f));
            }
            11 => {
                let mut sk = it.skip(usize::MAX - k);
                items.extend(sk.next().map(&mut *f));
                lens.push(sk.len());
            }
            _ => {
                let mut st = it.step_by(usize::MAX - k);
                items.extend(st.next().map(&mut *f));
                items.extend(st.next().map(&mut *f));
            }
        }
        return (items, lens, 0);
    }
    let mode = fin % N_FIN;
    let arg = (fin / N_FIN) as usize; // 0..=16
    let k = arg % (m + 3);
    match mode {
        0 => return (items, lens, it.count()),
        1 => items.extend(it.last().map(&mut *f)),
        2 | 3 => {
            // nth / nth_back (also past the end: everything is consumed then), then one more step
            let x = if mode == 2 { it.nth(k) } else { it.nth_back(k) };
            items.extend(x.map(&mut *f));
            lens.push(it.len());
            lens.push(it.size_hint().0);
            let y = if mode == 2 { it.next() } else { it.next_back() };
            items.extend(y.map(&mut *f));
            lens.push(it.len());
            let z = if mode == 2 { it.next_back() } else { it.next() };
            items.extend(z.map(&mut *f));
            lens.push(it.len());
            return (items, lens, it.count());
        }
        4 => it.fold((), |(), x| items.push(f(x))),
        5 => items.extend(it.rev().map(&mut *f)),
        6 => {
            let sk = it.skip(k);
            lens.push(sk.len());
            items.extend(sk.map(&mut *f));
        }
        7 => items.extend(it.step_by(1 + arg % 3).map(&mut *f)),
        8 => {
            let c = it.by_ref().take(k).count();
            lens.push(c);
            lens.push(it.len());
            items.extend(it.map(&mut *f));
        }
        9 => it.rfold((), |(), x| items.push(f(x))),
        10 => items.extend(it.rev().last().map(&mut *f)),
        11 => {
            let mut sk = it.skip(k);
            let x = sk.next_back();
            items.extend(x.map(&mut *f));
            lens.push(sk.len());
            items.extend(sk.map(&mut *f));
        }
        _ => {
            // for-loop with an early break, then the rest backwards
            let mut taken = 0;
            for x in it.by_ref() {
                items.push(f(x));
                taken += 1;
                if taken > k {
                    break;
                }
            }
            lens.push(it.len());
            items.extend(it.rev().map(&mut *f));
        }
    }
    (items, lens, 0)
}

#[derive(Clone, Debug, PartialEq, Serialize, Deserialize)]
pub enum Out {
    Unsupported,
    Unit,
    Bool(bool),
    Num(u64),
    V(Option<u32>),
    KV(Option<(u16, u32)>),
    Put(PR),
    OrPut(Option<u32>, Option<PR>),
    ContainsOrPut(bool, Option<PR>),
    Nums(Vec<u64>),
    Text(String),
    Iter(IterOut),
}

/// `Op::Resize(n)`: the three largest u16 values stand for huge capacities ("resize to any
/// value": an effectively unbounded cache)
pub fn resize_target(n: u16) -> usize {
    match n {
        65535 => usize::MAX,
        65534 => usize::MAX / 2,
        65533 => 1usize << 32,
        // 2^32 + a few: arithmetic truncated to 32 bits sees "0 .. 4 free slots"
        65528..=65532 => (1usize << 32) + (n as usize - 65528),
        n => n as usize,
    }
}

/// token written by step `i` (sub-index `j` for ops that write several values)
pub fn token(i: usize, j: usize) -> u32 {
    ((i as u32) + 1) * 128 + (j as u32 % 128)
}

pub fn fnv64(bytes: &[u8]) -> u64 {
    let mut h = 0xcbf29ce484222325u64;
    for b in bytes {
        h = (h ^ *b as u64).wrapping_mul(0x100000001b3);
    }
    h
}

impl Case {
    pub fn hash64(&self) -> u64 {
        fnv64(serde_json::to_string(self).unwrap_or_default().as_bytes())
    }
}
