//! C19, run-time side of "safe code cannot hold two live mutable references to the same value":
//! the mutable iterators hand out `&'a mut V` that may all be kept alive at once, so every
//! reference an iterator yields - through `next`, `next_back`, `nth`, `nth_back` and the std
//! adaptors built on them (`skip`, `step_by`, `rev`, `take`, `last`, `fold`) - must point to a
//! different value, and an iterator over n entries may hand out at most n of them.  The compile
//! probes decide what the signatures allow; this decides what the iterator bodies do with the
//! lifetime they promise.  Generated: list contents, iterator family (the four mutable iterator
//! types of RawLRU, `&mut` IntoIterator, and the per-list accessors of TwoQueueCache and
//! AdaptiveCache that return the same types), a sequence of positional calls, a final adaptor.
//! Oracle: addresses of the yielded values pairwise distinct while all references are held;
//! count <= len; every address belongs to a value of that list.
use crate::inst::{reset_case, take_last_panic};
use crate::interp::{CaseReport, Violation};
use caches::{AdaptiveCache, Cache, RawLRU, TwoQueueCache};
use proptest::prelude::*;
use serde::{Deserialize, Serialize};
use std::collections::BTreeSet;
use std::panic::{catch_unwind, AssertUnwindSafe};

#[derive(Clone, Debug, Serialize, Deserialize, PartialEq)]
pub enum AStep {
    Next,
    NextBack,
    Nth(u8),
    NthBack(u8),
}

#[derive(Clone, Debug, Serialize, Deserialize)]
pub struct ACase {
    /// number of entries put (capacity 16)
    pub n: u8,
    /// keys touched again after the fill (get), to vary the link order
    pub touches: Vec<u8>,
    /// which accessor (see `FAMILIES`)
    pub family: u8,
    pub steps: Vec<AStep>,
    /// final adaptor: 0 collect, 1 rev, 2 skip(k), 3 step_by(k+1), 4 take(k) then the rest, 5 last, 6 rev+skip(k), 7 fold, 8 rfold
    pub fin: u8,
    pub k: u8,
}

pub const FAMILIES: [&str; 13] = [
    "RawLRU::iter_mut",
    "RawLRU::iter_lru_mut",
    "RawLRU::values_mut",
    "RawLRU::values_lru_mut",
    "(&mut RawLRU).into_iter",
    "TwoQueueCache::recent_iter_mut",
    "TwoQueueCache::recent_values_lru_mut",
    "TwoQueueCache::frequent_iter_lru_mut",
    "TwoQueueCache::frequent_values_mut",
    "AdaptiveCache::recent_iter_lru_mut",
    "AdaptiveCache::recent_values_mut",
    "AdaptiveCache::frequent_iter_mut",
    "AdaptiveCache::frequent_values_lru_mut",
];

pub fn acase_strategy(thorough: bool) -> BoxedStrategy<ACase> {
    let k = || prop_oneof![6 => 0u8..6, 2 => 6u8..14, 1 => Just(255u8)];
    let step = prop_oneof![3 => Just(AStep::Next), 3 => Just(AStep::NextBack), 4 => k().prop_map(AStep::Nth), 4 => k().prop_map(AStep::NthBack)];
    (0u8..=14, prop::collection::vec(0u8..14, 0..6), 0u8..FAMILIES.len() as u8, prop::collection::vec(step, 0..=(if thorough { 10 } else { 6 })), 0u8..9, k())
        .prop_map(|(n, touches, family, steps, fin, k)| ACase { n, touches, family, steps, fin, k })
        .boxed()
}

struct Seen<'a> {
    held: Vec<&'a mut u64>,
    used_pos: bool,
}

fn drive<'a, I, T>(mut it: I, c: &ACase, proj: fn(T) -> &'a mut u64, seen: &mut Seen<'a>)
where
    I: DoubleEndedIterator<Item = T> + ExactSizeIterator,
{
    for s in &c.steps {
        let r = match s {
            AStep::Next => it.next(),
            AStep::NextBack => it.next_back(),
            AStep::Nth(k) => {
                seen.used_pos |= *k > 0;
                it.nth(*k as usize)
            }
            AStep::NthBack(k) => {
                seen.used_pos |= *k > 0;
                it.nth_back(*k as usize)
            }
        };
        if let Some(x) = r {
            seen.held.push(proj(x));
        }
    }
    let k = c.k as usize;
    match c.fin % 9 {
        0 => seen.held.extend(it.map(proj)),
        1 => seen.held.extend(it.rev().map(proj)),
        2 => {
            seen.used_pos |= k > 0;
            seen.held.extend(it.skip(k).map(proj))
        }
        3 => {
            seen.used_pos |= k > 0;
            seen.held.extend(it.step_by(k.saturating_add(1)).map(proj))
        }
        4 => {
            for x in it.by_ref().take(k) {
                seen.held.push(proj(x));
            }
            while let Some(x) = it.next_back() {
                seen.held.push(proj(x));
            }
        }
        5 => seen.held.extend(it.last().map(proj)),
        6 => {
            seen.used_pos |= k > 0;
            seen.held.extend(it.rev().skip(k).map(proj))
        }
        7 => it.fold((), |(), x| seen.held.push(proj(x))),
        _ => it.rfold((), |(), x| seen.held.push(proj(x))),
    }
}

fn second<'a, K>(e: (&'a K, &'a mut u64)) -> &'a mut u64 {
    e.1
}
fn ident<'a>(e: &'a mut u64) -> &'a mut u64 {
    e
}

fn judge(c: &ACase, len: usize, members: &BTreeSet<usize>, seen: Seen<'_>, rep: &mut CaseReport) -> Option<Violation> {
    let addrs: Vec<usize> = seen.held.iter().map(|r| &**r as *const u64 as usize).collect();
    let fam = FAMILIES[(c.family % FAMILIES.len() as u8) as usize];
    let mut set = BTreeSet::new();
    for (i, a) in addrs.iter().enumerate() {
        if !set.insert(*a) {
            let first = addrs.iter().position(|x| x == a).unwrap_or(0);
            return Some(Violation {
                prop: "C19",
                step: i,
                msg: format!("{fam} over a list of {len} entries, calls {:?} then adaptor {} (k = {}): the references number {first} and {i} handed out (all still alive) point to the same value: safe code holds two live &mut to one value", c.steps, c.fin % 9, c.k),
                sig: "alias/-/duplicate-mut".into(),
            });
        }
        if !members.contains(a) {
            return Some(Violation { prop: "C19", step: i, msg: format!("{fam} over a list of {len} entries, calls {:?} then adaptor {} (k = {}): reference number {i} does not point to a value of that list", c.steps, c.fin % 9, c.k), sig: "alias/-/foreign-mut".into() });
        }
    }
    if addrs.len() > len {
        return Some(Violation { prop: "C19", step: 0, msg: format!("{fam} over a list of {len} entries handed out {} mutable references", addrs.len()), sig: "alias/-/too-many".into() });
    }
    // write through every held reference (all are alive here)
    for r in seen.held {
        *r = r.wrapping_add(1);
    }
    rep.nontrivial = len >= 3 && seen.used_pos && addrs.len() >= 2;
    None
}

fn run_inner(c: &ACase, rep: &mut CaseReport) -> Option<Violation> {
    let f = c.family % FAMILIES.len() as u8;
    let n = c.n as u64;
    macro_rules! go {
        ($members:expr, $len:expr, $it:expr, $proj:expr) => {{
            let members: BTreeSet<usize> = $members;
            let len = $len;
            let mut seen = Seen { held: vec![], used_pos: false };
            drive($it, c, $proj, &mut seen);
            judge(c, len, &members, seen, rep)
        }};
    }
    let addr = |v: &mut u64| v as *mut u64 as usize;
    match f {
        0..=4 => {
            let mut l: RawLRU<u64, u64> = RawLRU::new(16).ok()?;
            for i in 0..n {
                l.put(i, i * 10);
            }
            for t in &c.touches {
                let _ = l.get(&(*t as u64));
            }
            let members: BTreeSet<usize> = l.values_mut().map(addr).collect();
            let len = l.len();
            match f {
                0 => go!(members, len, l.iter_mut(), second::<u64>),
                1 => go!(members, len, l.iter_lru_mut(), second::<u64>),
                2 => go!(members, len, l.values_mut(), ident),
                3 => go!(members, len, l.values_lru_mut(), ident),
                _ => go!(members, len, (&mut l).into_iter(), second::<u64>),
            }
        }
        5..=8 => {
            let mut q: TwoQueueCache<u64, u64> = TwoQueueCache::new(16).ok()?;
            for i in 0..n {
                q.put(i, i * 10);
            }
            // touched keys move to the frequent queue
            for t in &c.touches {
                let _ = q.get(&(*t as u64));
            }
            if f >= 7 {
                for i in (0..n).step_by(2) {
                    let _ = q.get(&i);
                }
            }
            match f {
                5 => go!(q.recent_values_mut().map(addr).collect(), q.recent_len(), q.recent_iter_mut(), second::<u64>),
                6 => go!(q.recent_values_mut().map(addr).collect(), q.recent_len(), q.recent_values_lru_mut(), ident),
                7 => go!(q.frequent_values_mut().map(addr).collect(), q.frequent_len(), q.frequent_iter_lru_mut(), second::<u64>),
                _ => go!(q.frequent_values_mut().map(addr).collect(), q.frequent_len(), q.frequent_values_mut(), ident),
            }
        }
        _ => {
            let mut a: AdaptiveCache<u64, u64> = AdaptiveCache::new(16).ok()?;
            for i in 0..n {
                a.put(i, i * 10);
            }
            for t in &c.touches {
                let _ = a.get(&(*t as u64));
            }
            if f >= 11 {
                for i in (0..n).step_by(2) {
                    let _ = a.get(&i);
                }
            }
            match f {
                9 => go!(a.recent_values_mut().map(addr).collect(), a.recent_len(), a.recent_iter_lru_mut(), second::<u64>),
                10 => go!(a.recent_values_mut().map(addr).collect(), a.recent_len(), a.recent_values_mut(), ident),
                11 => go!(a.frequent_values_mut().map(addr).collect(), a.frequent_len(), a.frequent_iter_mut(), second::<u64>),
                _ => go!(a.frequent_values_mut().map(addr).collect(), a.frequent_len(), a.frequent_values_lru_mut(), ident),
            }
        }
    }
}

pub fn run_alias(c: &ACase) -> CaseReport {
    reset_case();
    let _ = take_last_panic();
    let mut rep = CaseReport::default();
    rep.steps = c.steps.len() + 1;
    let r = catch_unwind(AssertUnwindSafe(|| run_inner(c, &mut rep)));
    match r {
        Ok(v) => rep.violation = v,
        Err(_) => rep.aborted_by_panic = take_last_panic(),
    }
    rep
}
