//! proptest strategies for cases. Sound by construction: only configurations the
//! constructors accept (rejected tuples belong to C05's argument grid).

use crate::ops::*;
use proptest::prelude::*;
use proptest::strategy::BoxedStrategy;

/// relative weights of op groups
#[derive(Clone, Debug)]
pub struct Profile {
    pub kinds: Vec<(u32, Kind)>,
    pub max_ops: usize,
    pub min_ops: usize,
    /// percentage of cases with a long history (up to `long_max` ops): some states (an ARC
    /// target p of 3 or more with lopsided ghost lists, a hash index that rehashes in place)
    /// are only reached after dozens of operations
    pub long_pct: u32,
    pub long_max: usize,
    /// percentage of cases using `String` keys
    pub str_pct: u32,
    pub w_put: u32,
    pub w_get: u32,
    pub w_get_mut: u32,
    pub w_peek: u32,
    pub w_remove: u32,
    pub w_purge: u32,
    pub w_query: u32,
    pub w_lru_extra: u32,
    pub w_resize: u32,
    pub w_or_put: u32,
    pub w_seg_extra: u32,
    pub w_iter: u32,
    pub w_clone: u32,
    /// allow resize(0) and resize beyond the capacity
    pub resize_any: bool,
    /// larger capacities / longer histories
    pub thorough: bool,
    /// hashers to draw from
    pub hashers: Vec<HSpec>,
    pub key_hashers: Vec<KhSpec>,
    /// extra weight on `get` of the hot keys (drives estimator differences)
    pub hot_get: u32,
    /// medium scale: capacities 64..=400, alphabets of 1.3..3 x capacity drawn almost uniformly,
    /// prefilled, 600..=2500 operations (ghost lists of ~100 entries, p in the hundreds)
    pub medium: bool,
}

pub const ALL_HASHERS: [HSpec; 6] = [HSpec::Fnv(1), HSpec::Fnv(0x9e37), HSpec::Ident, HSpec::Zero, HSpec::Random, HSpec::Fnv(77)];
pub const DET_HASHERS: [HSpec; 5] = [HSpec::Fnv(1), HSpec::Fnv(0x9e37), HSpec::Ident, HSpec::Zero, HSpec::Fnv(77)];

impl Profile {
    pub fn base(thorough: bool) -> Profile {
        Profile {
            kinds: vec![(3, Kind::Lru), (1, Kind::LruCb), (1, Kind::LruCbD), (3, Kind::Seg), (4, Kind::TwoQ), (4, Kind::Arc), (4, Kind::Wtl)],
            max_ops: if thorough { 150 } else { 40 },
            min_ops: 0,
            long_pct: 8,
            long_max: if thorough { 400 } else { 160 },
            str_pct: 0,
            w_put: 30,
            w_get: 14,
            w_get_mut: 5,
            w_peek: 5,
            w_remove: 5,
            w_purge: 1,
            w_query: 3,
            w_lru_extra: 10,
            w_resize: 3,
            w_or_put: 5,
            w_seg_extra: 10,
            w_iter: 3,
            w_clone: 2,
            resize_any: true,
            thorough,
            hashers: DET_HASHERS.to_vec(),
            key_hashers: vec![KhSpec::Ident, KhSpec::Const, KhSpec::Fnv(3), KhSpec::Default],
            hot_get: 0,
            medium: false,
        }
    }
    pub fn only(mut self, kinds: &[Kind]) -> Profile {
        self.kinds.retain(|(_, k)| kinds.contains(k));
        self
    }
}

fn key(a: u16) -> BoxedStrategy<u16> {
    let hot = a.min(3).max(1);
    if a > 120 {
        // medium scale: almost uniform (recurrence comes from the alphabet / capacity ratio)
        return prop_oneof![1 => 0..hot, 12 => 0..a.max(1)].boxed();
    }
    prop_oneof![6 => 0..hot, 4 => 0..a.max(1)].boxed()
}

fn pattern(max: usize) -> BoxedStrategy<Vec<bool>> {
    prop::collection::vec(any::<bool>(), 0..=max).boxed()
}

pub fn op_strategy(kind: Kind, a: u16, cap: usize, p: &Profile) -> BoxedStrategy<Op> {
    let k = || key(a);
    let mut v: Vec<(u32, BoxedStrategy<Op>)> = vec![
        (p.w_put, k().prop_map(Op::Put).boxed()),
        (p.w_get, (k(), any::<bool>()).prop_map(|(k, b)| Op::Get(k, b)).boxed()),
        (p.w_get_mut, (k(), any::<bool>(), any::<bool>()).prop_map(|(k, b, w)| Op::GetMut(k, b, w)).boxed()),
        (p.w_peek, (k(), any::<bool>()).prop_map(|(k, b)| Op::Peek(k, b)).boxed()),
        (p.w_peek, (k(), any::<bool>(), any::<bool>()).prop_map(|(k, b, w)| Op::PeekMut(k, b, w)).boxed()),
        (p.w_peek, (k(), any::<bool>()).prop_map(|(k, b)| Op::Contains(k, b)).boxed()),
        (p.w_remove, (k(), any::<bool>()).prop_map(|(k, b)| Op::Remove(k, b)).boxed()),
        (p.w_purge, Just(Op::Purge).boxed()),
        (p.w_query, prop_oneof![Just(Op::Len), Just(Op::Cap), Just(Op::IsEmpty), Just(Op::Lens)].boxed()),
    ];
    if p.hot_get > 0 {
        v.push((p.hot_get, (0..a.min(3).max(1), any::<bool>()).prop_map(|(k, b)| Op::Get(k, b)).boxed()));
    }
    if kind.is_lru() {
        let maxr = if p.resize_any { (2 * cap + 1) as u16 } else { cap.max(1) as u16 };
        let minr = if p.resize_any { 0u16 } else { 1u16 };
        v.push((
            p.w_lru_extra,
            prop_oneof![
                3 => Just(Op::GetLru),
                1 => Just(Op::GetMru),
                2 => any::<bool>().prop_map(Op::GetLruMut),
                1 => any::<bool>().prop_map(Op::GetMruMut),
                1 => Just(Op::PeekLru),
                1 => Just(Op::PeekMru),
                1 => any::<bool>().prop_map(Op::PeekLruMut),
                1 => any::<bool>().prop_map(Op::PeekMruMut),
                2 => Just(Op::RemoveLru),
                1 => Just(Op::Debug),
            ]
            .boxed(),
        ));
        v.push((p.w_resize, prop_oneof![30 => (minr..=maxr).prop_map(Op::Resize), 2 => (65528u16..=65535).prop_map(Op::Resize)].boxed()));
        v.push((
            p.w_or_put,
            prop_oneof![k().prop_map(Op::PeekOrPut), (k(), any::<bool>()).prop_map(|(k, w)| Op::PeekMutOrPut(k, w)), k().prop_map(Op::ContainsOrPut)].boxed(),
        ));
    }
    if kind == Kind::Seg {
        v.push((
            p.w_seg_extra,
            prop_oneof![
                4 => k().prop_map(Op::PutProtected),
                2 => (0u8..2).prop_map(Op::RemoveLruFrom),
                3 => (0u8..2, any::<bool>(), any::<bool>(), any::<bool>()).prop_map(|(seg, mru, mutable, write)| Op::SegPeek { seg, mru, mutable, write }),
            ]
            .boxed(),
        ));
    }
    if kind == Kind::TwoQ {
        v.push((1.min(p.w_query), Just(Op::Debug).boxed()));
    }
    if kind.has_iters() && p.w_iter > 0 {
        let nl = kind.n_lists() as u8;
        let nf: u8 = if kind.is_lru() { 12 } else { 10 };
        v.push((
            p.w_iter,
            (0..nl, 0..nf, pattern(cap.min(8) + 2), prop_oneof![2 => Just(255u8), 1 => 0u8..10], any::<bool>(), prop_oneof![2 => Just(0u8), 3 => any::<u8>(), 1 => crate::ops::FIN_EXT..=255u8])
                .prop_map(|(list, fam, pat, clone_at, write, fin)| Op::Iter { list, fam, pat, clone_at, write, fin })
                .boxed(),
        ));
    }
    if kind.cloneable() && p.w_clone > 0 {
        v.push((p.w_clone, prop_oneof![Just(Op::CloneSwap), Just(Op::CloneDrop)].boxed()));
    }
    let v: Vec<(u32, BoxedStrategy<Op>)> = v.into_iter().filter(|(w, _)| *w > 0).collect();
    proptest::strategy::Union::new_weighted(v).boxed()
}

const RATIOS: [f64; 8] = [0.0, 0.1, 0.25, 0.34, 0.5, 0.75, 0.99, 1.0];

fn small_cap(thorough: bool) -> BoxedStrategy<usize> {
    if thorough {
        prop_oneof![60 => 1usize..=4, 25 => 5usize..=8, 15 => 9usize..=64].boxed()
    } else {
        prop_oneof![70 => 1usize..=4, 25 => 5usize..=8, 5 => 9usize..=64].boxed()
    }
}

pub fn cfg_strategy(kind: Kind, p: &Profile) -> BoxedStrategy<Cfg> {
    (cfg_strategy_inner(kind, p), 0u8..4)
        .prop_map(|(mut c, perm)| {
            c.perm = perm;
            c
        })
        .boxed()
}

fn cfg_strategy_inner(kind: Kind, p: &Profile) -> BoxedStrategy<Cfg> {
    let hs = prop::sample::select(p.hashers.clone());
    let hs4 = (hs.clone(), hs.clone(), hs.clone(), hs.clone()).prop_map(|(a, b, c, d)| [a, b, c, d]);
    let th = p.thorough;
    let tiny = move || if th { prop_oneof![8 => 1usize..=4, 2 => 5usize..=12].boxed() } else { prop_oneof![18 => 1usize..=4, 1 => 5usize..=8, 1 => 9usize..=12].boxed() };
    let medium = p.medium;
    let small_cap = move |th: bool| if medium { prop_oneof![3 => 64usize..=160, 2 => 161usize..=400].boxed() } else { small_cap(th) };
    let tiny = move || if medium { prop_oneof![2 => 1usize..=4, 5 => 40usize..=200].boxed() } else { tiny() };
    match kind {
        Kind::Lru | Kind::LruCb | Kind::LruCbD | Kind::Arc => (small_cap(th), hs4)
            .prop_map(|(a, hs)| {
                let mut c = Cfg::simple(a);
                c.hs = hs;
                c
            })
            .boxed(),
        Kind::Seg => (tiny(), tiny(), hs4)
            .prop_map(|(a, b, hs)| {
                let mut c = Cfg::simple(a);
                c.b = b;
                c.hs = hs;
                c
            })
            .boxed(),
        Kind::TwoQ => small_cap(th)
            .prop_flat_map(move |a| {
                // ratios: the boundary grid, every q/size, every k/100 and arbitrary values
                // (floor(size x ratio) is sensitive to the last bit of the product)
                let mut all: Vec<f64> = RATIOS.to_vec();
                all.extend((0..=a).map(|q| q as f64 / a as f64));
                all.extend((0..=100).map(|k| k as f64 / 100.0));
                let grs: Vec<f64> = all.iter().copied().filter(|g| (a as f64 * g).floor() >= 1.0).collect();
                let any_r = || prop_oneof![3 => prop::sample::select(RATIOS.to_vec()), 2 => prop::sample::select(all.clone()), 1 => (0.0f64..1.0)];
                let any_g = prop_oneof![3 => prop::sample::select(RATIOS.iter().copied().filter(|g| (a as f64 * g).floor() >= 1.0).collect::<Vec<_>>()), 2 => prop::sample::select(grs.clone()), 1 => if a > 1 { ((1.0 / a as f64)..1.0).boxed() } else { Just(1.0f64).boxed() }];
                (Just(a), any_r(), any_g)
            })
            .prop_flat_map(move |(a, rr, gr)| (Just(a), Just(rr), Just(gr)))
            .prop_map(|(a, rr, gr)| {
                let mut c = Cfg::simple(a);
                c.rr = rr;
                c.gr = gr;
                c
            })
            .boxed()
            .prop_flat_map(move |c| (Just(c), prop::sample::select(DET_HASHERS.to_vec()), prop::sample::select(DET_HASHERS.to_vec()), prop::sample::select(DET_HASHERS.to_vec())))
            .prop_map(|(mut c, h0, h1, h2)| {
                c.hs = [h0, h1, h2, h0];
                c
            })
            .boxed(),
        Kind::Wtl => {
            let w = move || {
                if medium {
                    prop_oneof![2 => 1usize..=4, 5 => 30usize..=150].boxed()
                } else if th {
                    prop_oneof![8 => 1usize..=3, 2 => 4usize..=10].boxed()
                } else {
                    prop_oneof![18 => 1usize..=3, 2 => 4usize..=10].boxed()
                }
            };
            let khs = prop::sample::select(p.key_hashers.clone());
            (w(), w(), w(), 1usize..=64, prop::sample::select(vec![1e-9, 0.01, 0.3, 0.9]), khs, hs4, any::<u64>())
                .prop_map(|(a, b, c_, samples, fp, kh, hs, seed)| {
                    let mut c = Cfg::simple(a);
                    c.b = b;
                    c.c = c_;
                    c.samples = samples;
                    c.fp = fp;
                    c.kh = kh;
                    c.hs = hs;
                    c.sketch_seed = Some(seed);
                    c
                })
                .boxed()
        }
    }
}

pub fn case_strategy(p: &Profile) -> BoxedStrategy<Case> {
    let kinds: Vec<(u32, BoxedStrategy<Kind>)> = p.kinds.iter().map(|(w, k)| (*w, Just(*k).boxed())).collect();
    let p2 = p.clone();
    let p3 = p.clone();
    proptest::strategy::Union::new_weighted(kinds)
        .prop_flat_map(move |kind| (Just(kind), cfg_strategy(kind, &p2), 0u32..100))
        .prop_flat_map(move |(kind, cfg, strpick)| {
            let cap = cfg.total_cap(kind);
            let lo = (cap + 1) as u16;
            // large capacities get a narrow alphabet (so hits, evictions and ghost hits stay common)
            let hi = if p3.medium { (3 * cap).min(2000) as u16 } else if cap > 8 { (cap + 6).min(250) as u16 } else { (3 * cap + 3) as u16 };
            let lo = if p3.medium { (cap + cap / 3) as u16 } else { lo };
            let p4 = p3.clone();
            (Just(kind), Just(cfg), Just(strpick), lo..=hi.max(lo), 0u32..100).prop_flat_map(move |(kind, cfg, strpick, a, prefill)| {
                let cap = cfg.total_cap(kind);
                let (lo_n, hi_n) = if prefill >= 100 - p4.long_pct.min(100) && p4.long_pct > 0 { (p4.max_ops.min(p4.long_max), p4.long_max.max(p4.max_ops)) } else { (p4.min_ops.min(p4.max_ops), p4.max_ops) };
                let ops = prop::collection::vec(op_strategy(kind, a, cap, &p4), lo_n..=hi_n);
                let keys = if strpick < p4.str_pct { KeyMode::Str } else { KeyMode::Tracked };
                // a large cache is useless to a 40-op history unless it starts (nearly) full:
                // 2/3 of the large-capacity cases begin with one put per distinct key
                let fill: Vec<Op> = if cap > 8 && prefill < 66 { (0..(cap as u16 + (prefill % 3) as u16)).map(|k| Op::Put(k % a.max(1))).collect() } else { vec![] };
                (Just(kind), Just(cfg), Just(keys), Just(a), Just(fill), ops).prop_map(|(kind, cfg, keys, alphabet, mut fill, ops)| {
                    fill.extend(ops);
                    Case { kind, cfg, keys, alphabet, ops: fill }
                })
            })
        })
        .boxed()
}
