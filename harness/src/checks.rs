//! Per-property check definitions: which engines run, with which generator profile and
//! budget, and how the evidence is assembled.

use crate::gen::*;
use crate::inst::TKey;
use crate::interp::*;
use crate::ops::*;
use crate::runner::*;
use serde_json::{json, Map, Value};

#[derive(Clone, Copy, Debug, PartialEq, Eq)]
pub enum Tier {
    Quick,
    Thorough,
}

pub struct Ctx {
    pub id: String,
    pub tier: Tier,
    pub seed: u64,
    pub verif_dir: String,
    pub known: Known,
    pub workers: usize,
    /// multiply the case budgets (1.0 = the registered budgets)
    pub scale: f64,
}

impl Ctx {
    pub fn cases(&self, quick: u32, thorough: u32) -> u32 {
        let n = if self.tier == Tier::Quick { quick } else { thorough };
        ((n as f64 * self.scale).ceil() as u32).max(1)
    }
    pub fn replay_dir(&self) -> String {
        format!("{}/replays", self.verif_dir)
    }
}

#[derive(Default)]
pub struct Outcome {
    pub level: &'static str,
    pub coverage: Map<String, Value>,
    pub assumptions: Vec<String>,
    /// (replay path, message)
    pub violations: Vec<(String, String)>,
    pub known_lines: Vec<String>,
    pub inconclusive: Option<String>,
}

pub fn exec_case(case: &Case, prop: Prop) -> CaseReport {
    match case.keys {
        KeyMode::Tracked => run_case::<TKey>(case, prop, false),
        KeyMode::Str => run_case::<String>(case, prop, false),
    }
}

pub fn profile_for(prop: Prop, thorough: bool) -> Profile {
    let mut p = Profile::base(thorough);
    match prop {
        Prop::C01 => {
            p.w_clone = 3;
            p.w_resize = 4;
        }
        Prop::C02 => {
            p.str_pct = 35;
            p.hashers = ALL_HASHERS.to_vec();
            p.hashers.push(HSpec::Zero);
            p.w_get_mut = 8;
            p.w_peek = 7;
            p.w_remove = 8;
            p.w_iter = 3;
        }
        Prop::C03 => {
            p.w_purge = 2;
            p.w_resize = 5;
            p.w_clone = 4;
            p.w_remove = 7;
            p.hashers = ALL_HASHERS.to_vec();
        }
        Prop::C04 => {
            p.w_remove = 8;
            p.w_purge = 2;
            p.w_clone = 4;
            p.w_resize = 4;
        }
        Prop::C05 => {
            p.hashers = ALL_HASHERS.to_vec();
            p.w_resize = 6;
        }
        Prop::C06 => {
            p = p.only(&[Kind::Lru, Kind::LruCb, Kind::LruCbD]);
            p.w_lru_extra = 16;
            p.w_resize = 5;
            p.w_or_put = 8;
        }
        Prop::C07 => {
            p = p.only(&[Kind::Seg]);
            p.w_get = 20;
        }
        Prop::C08 => {
            p = p.only(&[Kind::TwoQ]);
            p.w_iter = 1;
        }
        Prop::C09 => {
            p = p.only(&[Kind::Arc]);
            p.w_iter = 1;
        }
        Prop::C10 => {
            p = p.only(&[Kind::Wtl]);
            p.hot_get = 22;
            p.w_put = 34;
            p.max_ops = if thorough { 200 } else { 60 };
        }
        Prop::C12 => {
            p.w_put = 40;
            p.w_or_put = 8;
            p.w_seg_extra = 14;
        }
        Prop::C14 => {
            p = p.only(&[Kind::Lru, Kind::LruCb, Kind::TwoQ, Kind::Arc]);
            p.w_iter = 30;
            p.max_ops = if thorough { 80 } else { 30 };
        }
        Prop::C15 => {
            p = p.only(&[Kind::LruCb, Kind::LruCbD]);
            p.w_lru_extra = 14;
            p.w_resize = 6;
            p.w_remove = 8;
            p.w_purge = 2;
            p.w_get_mut = 8;
        }
        Prop::Trace => {}
    }
    p
}

pub fn rule_for(prop: Prop) -> &'static str {
    match prop {
        Prop::C01 => "proptest-generated (kind, configuration, hashers, history) cases; non-trivial = the cache reached len()==cap() and executed at least one admitting op afterwards; distinct = distinct FNV-64 of the serialised case",
        Prop::C02 => "generated cases over TKey and String keys (borrowed/owned lookups chosen per op); non-trivial = an entry was reported evicted, its key was put again and then hit by get/get_mut; distinct by case hash",
        Prop::C03 => "generated cases with poisoning allocator + quarantine, structural audit after every op, cache dropped after the generated prefix; non-trivial = at least one inter-list migration (promotion/demotion/ghosting/revival) and one node recycling (plain LRU: one recycling eviction); distinct by case hash",
        Prop::C04 => "generated cases with drop-tracked keys/values and a counting allocator; non-trivial = at least one eviction, one update and one remove in the case (the cache is always dropped at the end, usually non-empty); distinct by case hash",
        Prop::C05 => "generated operation sequences on every accepted configuration (resize to any value in 0..=2cap+1); non-trivial = the cache reached full and the case used at least 8 different operations; distinct by case hash",
        Prop::C06 => "generated cases over the full RawLRU API; non-trivial = an overflow eviction and a reordering use both occurred; distinct by case hash",
        Prop::C07 => "generated SegmentedCache cases; non-trivial = a promotion overflowed the protected segment (a demotion happened); distinct by case hash",
        Prop::C08 => "generated TwoQueueCache cases over the ratio grid; non-trivial = at least one ghost hit while the cache was full; distinct by case hash",
        Prop::C09 => "generated AdaptiveCache cases; non-trivial = both a recent-ghost hit and a frequent-ghost hit occurred, one of them while full; distinct by case hash",
        Prop::C10 => "generated WTinyLFUCache cases (hot-key-skewed gets); non-trivial = at least one admission comparison was executed; distinct by case hash",
        Prop::C12 => "generated cases, every put-like call judged by set arithmetic on the retained set before/after; non-trivial = a put evicted an entry or hit a ghost; distinct by case hash",
        Prop::C14 => "generated cache states x generated next/next_back interleavings (plus all interleavings of length len+2 for lists of <= 3 entries in a quarter of the cases); non-trivial = a list of >= 2 entries walked from both ends; distinct by case hash",
        Prop::C15 => "generated cases on callback-carrying RawLRUs (both constructors); non-trivial = callbacks fired through at least two different paths (eviction/remove/remove_lru/purge/resize) and one carried a value written through a mutable reference; distinct by case hash",
        Prop::Trace => "",
    }
}

pub fn finish_e1(ctx: &Ctx, prop: Prop, acc: Acc, found: Option<(usize, Case, Violation)>, out: &mut Outcome, engine: &str) {
    let cov = &mut out.coverage;
    let add = |cov: &mut Map<String, Value>, k: &str, v: u64| {
        let cur = cov.get(k).and_then(|x| x.as_u64()).unwrap_or(0);
        cov.insert(k.to_string(), json!(cur + v));
    };
    add(cov, "evaluations", acc.evaluations);
    add(cov, "distinct_nontrivial", acc.nontrivial.len() as u64);
    add(cov, "ops_executed", acc.ops_executed);
    add(cov, "aborted_by_panic", acc.aborted_by_panic);
    add(cov, "unbuildable_configs", acc.unbuildable);
    if !cov.contains_key("rule") {
        cov.insert("rule".into(), json!(rule_for(prop)));
    }
    let mut samples = cov.get("samples").and_then(|s| s.as_array().cloned()).unwrap_or_default();
    samples.extend(acc.samples.iter().cloned());
    samples.truncate(4);
    cov.insert("samples".into(), Value::Array(samples));
    cov.insert(format!("classes_{}", engine), stats_json(&acc.stats));
    let pk: Map<String, Value> = acc.per_kind.iter().map(|(k, v)| (k.to_string(), json!({"cases": v.0, "nontrivial": v.1}))).collect();
    cov.insert(format!("per_kind_{}", engine), Value::Object(pk));
    if !acc.panic_sites.is_empty() {
        cov.insert(format!("panic_sites_{}", engine), json!(acc.panic_sites));
    }
    for (k, v) in &acc.extra {
        cov.insert(k.clone(), json!(v));
        if k.starts_with("unreproducible_failure") || k.starts_with("proptest_abort") {
            out.inconclusive = Some(k.clone());
        }
    }
    for (ix, n) in &acc.known_hits {
        let (p, s, t) = &ctx.known.open[*ix];
        let line = format!("KNOWN-FINDING: property={} sig={} {} (hit {} times, excluded from the search)", p, s, t, n);
        if !out.known_lines.contains(&line) {
            out.known_lines.push(line);
        }
        add(&mut out.coverage, "known_finding_hits", *n);
    }
    if let Some((_w, case, v)) = found {
        // minimise under the property's own predicate, then write the replay
        let known = &ctx.known;
        let pid = ctx.id.clone();
        let fails = |c: &Case| -> bool {
            let r = exec_case(c, prop);
            matches!(r.violation, Some(ref v) if known.matches(&pid, &v.sig).is_none())
        };
        let min = minimize(&case, &fails);
        let rep = exec_case(&min, prop);
        let v = rep.violation.unwrap_or(v);
        let path = write_replay(&ctx.replay_dir(), &ctx.id, engine, serde_json::to_value(&min).unwrap(), &v);
        out.violations.push((path, v.msg));
    }
}

/// E1 for one of the interpreter-level properties
pub fn check_e1(ctx: &Ctx, prop: Prop, out: &mut Outcome, q: u32, t: u32) {
    let profile = profile_for(prop, ctx.tier == Tier::Thorough);
    let strat = move || case_strategy(&profile);
    let exec = move |c: &Case| exec_case(c, prop);
    let (acc, found) = run_engine(&strat, &exec, &|c: &Case| c.clone(), &ctx.id, ctx.seed, prop as u64, ctx.workers, ctx.cases(q, t), &ctx.known);
    finish_e1(ctx, prop, acc, found, out, "e1");
}

/// replay a case file written by a check
pub fn replay_file(path: &str) -> Result<Option<Violation>, String> {
    let text = std::fs::read_to_string(path).map_err(|e| e.to_string())?;
    let v: Value = serde_json::from_str(&text).map_err(|e| e.to_string())?;
    let prop = v["property"].as_str().unwrap_or("");
    let engine = v["engine"].as_str().unwrap_or("e1");
    crate::registry::replay(prop, engine, &v["case"])
}
