//! Per-property check definitions: which engines run, with which generator profile and
//! budget, and how the evidence is assembled.

use crate::gen::*;
use crate::inst::TKey;
use crate::e6;
use crate::e7::*;
use crate::interp::*;
use crate::multi::*;
use crate::ops::*;
use crate::runner::*;
use serde_json::{json, Map, Value};

#[derive(Clone, Copy, Debug, PartialEq, Eq)]
pub enum Tier {
    Quick,
    Thorough,
}

pub struct Ctx {
    pub id: String,
    pub tier: Tier,
    pub seed: u64,
    pub verif_dir: String,
    pub known: Known,
    pub workers: usize,
    /// multiply the case budgets (1.0 = the registered budgets)
    pub scale: f64,
}

impl Ctx {
    pub fn cases(&self, quick: u32, thorough: u32) -> u32 {
        let n = if self.tier == Tier::Quick { quick } else { thorough };
        ((n as f64 * self.scale).ceil() as u32).max(1)
    }
    pub fn replay_dir(&self) -> String {
        format!("{}/replays", self.verif_dir)
    }
}

#[derive(Default)]
pub struct Outcome {
    pub level: &'static str,
    pub coverage: Map<String, Value>,
    pub assumptions: Vec<String>,
    /// (replay path, message)
    pub violations: Vec<(String, String)>,
    pub known_lines: Vec<String>,
    pub inconclusive: Option<String>,
}

pub fn exec_case(case: &Case, prop: Prop) -> CaseReport {
    match case.keys {
        KeyMode::Tracked => run_case::<TKey>(case, prop, false),
        KeyMode::Str => {
            if prop == Prop::C02 {
                return c02_two_forms(case);
            }
            run_case::<String>(case, prop, false)
        }
    }
}

/// C02 with `String` keys: besides the shadow-map oracle, the same history is run a second
/// time with every lookup going through the *other* form of the key (`&str` <-> `&String`);
/// both runs must produce the same results and states.
fn c02_two_forms(case: &Case) -> CaseReport {
    let rep = run_case::<String>(case, Prop::C02, false);
    if rep.violation.is_some() || rep.aborted_by_panic.is_some() || rep.unbuildable.is_some() {
        return rep;
    }
    if case.kind == Kind::Wtl && case.cfg.kh == KhSpec::Default {
        // two separately built W-TinyLFU caches with the default (randomly keyed) key hasher
        // get different admission verdicts: not comparable
        return rep;
    }
    let mut flipped = case.clone();
    for op in flipped.ops.iter_mut() {
        match op {
            Op::Get(_, b) | Op::GetMut(_, b, _) | Op::Peek(_, b) | Op::PeekMut(_, b, _) | Op::Contains(_, b) | Op::Remove(_, b) => *b = !*b,
            _ => {}
        }
    }
    let a = run_case::<String>(case, Prop::Trace, true);
    let b = run_case::<String>(&flipped, Prop::Trace, true);
    let mut rep = rep;
    if a.aborted_by_panic.is_some() || b.aborted_by_panic.is_some() {
        return rep;
    }
    for i in 0..a.trace.len().min(b.trace.len()) {
        let same = matches!((&a.trace[i], &b.trace[i]), (Out::Text(_), Out::Text(_))) || a.trace[i] == b.trace[i];
        if !same || a.views[i].lists != b.views[i].lists {
            rep.violation = Some(Violation {
                prop: "C02",
                step: i,
                msg: format!("the {}-th executed op gives {:?} / state {:?} with one form of the key and {:?} / state {:?} with the other form (&str vs &String)", i, a.trace[i], a.views[i].lists, b.trace[i], b.views[i].lists),
                sig: format!("{}/-/borrowed-form-differs", case.kind.short()),
            });
            break;
        }
    }
    rep
}

pub fn profile_for(prop: Prop, thorough: bool) -> Profile {
    let mut p = Profile::base(thorough);
    match prop {
        Prop::C01 => {
            p.w_clone = 3;
            p.w_resize = 4;
        }
        Prop::C02 => {
            p.str_pct = 35;
            p.hashers = ALL_HASHERS.to_vec();
            p.hashers.push(HSpec::Zero);
            p.w_get_mut = 8;
            p.w_peek = 7;
            p.w_remove = 8;
            p.w_iter = 3;
        }
        Prop::C03 => {
            p.w_purge = 2;
            p.w_resize = 5;
            p.w_clone = 4;
            p.w_remove = 7;
            // deterministic hashers (crash reproducibility, see C18); RandomState is covered
            // by C02 / C16 / C17 whose oracles work in-process
            p.kinds.retain(|(_, k)| *k != Kind::LruCbD);
            p.key_hashers = vec![KhSpec::Ident, KhSpec::Const, KhSpec::Fnv(3)];
        }
        Prop::C04 => {
            p.w_remove = 8;
            p.w_purge = 2;
            p.w_clone = 4;
            p.w_resize = 4;
        }
        Prop::C05 => {
            p.hashers = ALL_HASHERS.to_vec();
            p.w_resize = 6;
        }
        Prop::C06 => {
            p = p.only(&[Kind::Lru, Kind::LruCb, Kind::LruCbD]);
            p.w_lru_extra = 16;
            p.w_resize = 5;
            p.w_or_put = 8;
        }
        Prop::C07 => {
            p = p.only(&[Kind::Seg]);
            p.w_get = 20;
        }
        Prop::C08 => {
            p = p.only(&[Kind::TwoQ]);
            p.w_iter = 1;
        }
        Prop::C09 => {
            p = p.only(&[Kind::Arc]);
            p.w_iter = 1;
        }
        Prop::C10 => {
            p = p.only(&[Kind::Wtl]);
            p.hot_get = 22;
            p.w_put = 34;
            p.max_ops = if thorough { 200 } else { 60 };
        }
        Prop::C12 => {
            p.w_put = 40;
            p.w_or_put = 8;
            p.w_seg_extra = 14;
        }
        Prop::C14 => {
            p = p.only(&[Kind::Lru, Kind::LruCb, Kind::TwoQ, Kind::Arc]);
            p.w_iter = 30;
            p.max_ops = if thorough { 80 } else { 30 };
        }
        Prop::C15 => {
            p = p.only(&[Kind::LruCb, Kind::LruCbD]);
            p.w_lru_extra = 14;
            p.w_resize = 6;
            p.w_remove = 8;
            p.w_purge = 2;
            p.w_get_mut = 8;
        }
        Prop::Trace => {}
    }
    p
}

pub fn rule_for(prop: Prop) -> &'static str {
    match prop {
        Prop::C01 => "proptest-generated (kind, configuration, hashers, history) cases; non-trivial = the cache reached len()==cap() and executed at least one admitting op afterwards; distinct = distinct FNV-64 of the serialised case",
        Prop::C02 => "generated cases over TKey and String keys (borrowed/owned lookups chosen per op); non-trivial = an entry was reported evicted, its key was put again and then hit by get/get_mut; distinct by case hash",
        Prop::C03 => "generated cases with poisoning allocator + quarantine, structural audit after every op, cache dropped after the generated prefix; non-trivial = at least one inter-list migration (promotion/demotion/ghosting/revival) and one node recycling (plain LRU: one recycling eviction); distinct by case hash",
        Prop::C04 => "generated cases with drop-tracked keys/values and a counting allocator; non-trivial = at least one eviction, one update and one remove in the case (the cache is always dropped at the end, usually non-empty); distinct by case hash",
        Prop::C05 => "generated operation sequences on every accepted configuration (resize to any value in 0..=2cap+1); non-trivial = the cache reached full and the case used at least 8 different operations; distinct by case hash",
        Prop::C06 => "generated cases over the full RawLRU API; non-trivial = an overflow eviction and a reordering use both occurred; distinct by case hash",
        Prop::C07 => "generated SegmentedCache cases; non-trivial = a promotion overflowed the protected segment (a demotion happened); distinct by case hash",
        Prop::C08 => "generated TwoQueueCache cases over the ratio grid; non-trivial = at least one ghost hit while the cache was full; distinct by case hash",
        Prop::C09 => "generated AdaptiveCache cases; non-trivial = both a recent-ghost hit and a frequent-ghost hit occurred, one of them while full; distinct by case hash",
        Prop::C10 => "generated WTinyLFUCache cases (hot-key-skewed gets); non-trivial = at least one admission comparison was executed; distinct by case hash",
        Prop::C12 => "generated cases, every put-like call judged by set arithmetic on the retained set before/after; non-trivial = a put evicted an entry or hit a ghost; distinct by case hash",
        Prop::C14 => "generated cache states x generated next/next_back interleavings, the rest consumed through a generated standard path (count/last/nth/nth_back/fold/rfold/rev/skip/step_by/take/for-break) compared with the same path on a Vec iterator of the expected items (plus all interleavings of length len+2 for lists of <= 3 entries in a quarter of the cases); non-trivial = a list of >= 2 entries walked from both ends; distinct by case hash",
        Prop::C15 => "generated cases on callback-carrying RawLRUs (both constructors); non-trivial = callbacks fired through at least two different paths (eviction/remove/remove_lru/purge/resize) and one carried a value written through a mutable reference; distinct by case hash",
        Prop::Trace => "",
    }
}

/// journal the cases of the engine about to run (crash attribution by the supervising parent)
pub fn journal_for(ctx: &Ctx, engine: &str) {
    if std::env::var_os("VH_NO_JOURNAL").is_some() {
        set_journal(None);
        return;
    }
    set_journal(Some((format!("{}/work/journal", ctx.verif_dir), engine.to_string())));
}

pub fn finish<T: serde::Serialize + Clone>(
    ctx: &Ctx,
    rule: &str,
    acc: Acc,
    found: Option<(usize, T, Violation)>,
    out: &mut Outcome,
    engine: &str,
    exec: &dyn Fn(&T) -> CaseReport,
    shrink: &dyn Fn(&T, &dyn Fn(&T) -> bool) -> T,
) {
    let cov = &mut out.coverage;
    let add = |cov: &mut Map<String, Value>, k: &str, v: u64| {
        let cur = cov.get(k).and_then(|x| x.as_u64()).unwrap_or(0);
        cov.insert(k.to_string(), json!(cur + v));
    };
    add(cov, "evaluations", acc.evaluations);
    add(cov, "distinct_nontrivial", acc.nontrivial.len() as u64);
    add(cov, "ops_executed", acc.ops_executed);
    add(cov, "aborted_by_panic", acc.aborted_by_panic);
    add(cov, "unbuildable_configs", acc.unbuildable);
    if !cov.contains_key("rule") {
        cov.insert("rule".into(), json!(rule));
    }
    let mut samples = cov.get("samples").and_then(|s| s.as_array().cloned()).unwrap_or_default();
    samples.extend(acc.samples.iter().cloned());
    samples.truncate(4);
    cov.insert("samples".into(), Value::Array(samples));
    cov.insert(format!("classes_{}", engine), stats_json(&acc.stats));
    let pk: Map<String, Value> = acc.per_kind.iter().map(|(k, v)| (k.to_string(), json!({"cases": v.0, "nontrivial": v.1}))).collect();
    cov.insert(format!("per_kind_{}", engine), Value::Object(pk));
    if !acc.panic_sites.is_empty() {
        cov.insert(format!("panic_sites_{}", engine), json!(acc.panic_sites));
    }
    for (k, v) in &acc.extra {
        cov.insert(k.clone(), json!(v));
        if k.starts_with("proptest_abort") {
            out.inconclusive = Some(k.clone());
        }
    }
    for (ix, n) in &acc.known_hits {
        let (p, s, t) = &ctx.known.open[*ix];
        let line = format!("KNOWN-FINDING: property={} sig={} {} (hit {} times, excluded from the search)", p, s, t, n);
        if !out.known_lines.contains(&line) {
            out.known_lines.push(line);
        }
        add(&mut out.coverage, "known_finding_hits", *n);
    }
    if let Some((_w, t, v)) = found {
        // minimise under the property's own predicate, then write the replay
        let known = &ctx.known;
        let pid = ctx.id.clone();
        let fails = |c: &T| -> bool {
            let r = exec(c);
            matches!(r.violation, Some(ref v) if known.matches(&pid, &v.sig).is_none())
        };
        let min = if fails(&t) { shrink(&t, &fails) } else { t.clone() };
        let rep = exec(&min);
        let v = rep.violation.unwrap_or(v);
        let path = write_replay(&ctx.replay_dir(), &ctx.id, engine, serde_json::to_value(&min).unwrap(), &v);
        out.violations.push((path, v.msg));
    }
}

/// E1 for one of the interpreter-level properties
pub fn check_e1(ctx: &Ctx, prop: Prop, out: &mut Outcome, q: u32, t: u32) {
    let profile = profile_for(prop, ctx.tier == Tier::Thorough);
    let strat = move || case_strategy(&profile);
    let exec = move |c: &Case| exec_case(c, prop);
    journal_for(ctx, "e1");
    let (acc, found) = run_engine(&strat, &exec, &|c: &Case| c.clone(), &ctx.id, ctx.seed, prop as u64, ctx.workers, ctx.cases(q, t), &ctx.known);
    finish(ctx, rule_for(prop), acc, found, out, "e1", &exec, &|c, f| minimize(c, f));
}

/// medium scale (capacities 64..=400, 600..=2500 ops, near-uniform keys): ghost lists of ~100
/// entries, ARC targets in the hundreds, segments that fill and drain many times
pub fn check_e1_medium(ctx: &Ctx, prop: Prop, out: &mut Outcome, q: u32, t: u32) {
    if ctx.scale < 0.1 {
        return;
    }
    let mut profile = profile_for(prop, ctx.tier == Tier::Thorough);
    profile.medium = true;
    profile.min_ops = 600;
    profile.max_ops = if ctx.tier == Tier::Thorough { 2500 } else { 1500 };
    profile.long_pct = 0;
    profile.w_iter = profile.w_iter.min(1);
    profile.w_clone = profile.w_clone.min(1);
    profile.w_purge = 0;
    profile.str_pct = 0;
    let strat = move || case_strategy(&profile);
    let exec = move |c: &Case| exec_case(c, prop);
    journal_for(ctx, "e1");
    let (acc, found) = run_engine(&strat, &exec, &|c: &Case| c.clone(), &ctx.id, ctx.seed, 0x3ed1 + prop as u64, ctx.workers, ctx.cases(q, t), &ctx.known);
    finish(ctx, "", acc, found, out, "e1", &exec, &|c, f| minimize(c, f));
}

/// C03 under an inconsistent BuildHasher (reseeds itself every n calls): safe but
/// contract-breaking user code; only memory safety is demanded (no model, no audit)
pub fn check_e1_chaos(ctx: &Ctx, out: &mut Outcome, q: u32, t: u32) {
    let mut profile = profile_for(Prop::C03, ctx.tier == Tier::Thorough);
    profile.hashers = vec![HSpec::Chaos(1), HSpec::Chaos(2), HSpec::Chaos(5), HSpec::Chaos(13), HSpec::Fnv(1)];
    profile.w_clone = 0;
    profile.w_iter = 0;
    profile.long_pct = 0;
    let strat = move || case_strategy(&profile);
    let exec = move |c: &Case| exec_case(c, Prop::C03);
    journal_for(ctx, "e1");
    let (acc, found) = run_engine(&strat, &exec, &|c: &Case| c.clone(), &ctx.id, ctx.seed, 0xc4a05, ctx.workers, ctx.cases(q, t), &ctx.known);
    finish(ctx, "", acc, found, out, "e1", &exec, &|c, f| minimize(c, f));
}

pub fn exec_c13(t: &C13Case) -> CaseReport {
    match t.case.keys {
        KeyMode::Tracked => run_c13::<TKey>(t),
        KeyMode::Str => run_c13::<String>(t),
    }
}
pub fn exec_c16(t: &C16Case) -> CaseReport {
    match t.case.keys {
        KeyMode::Tracked => run_c16::<TKey>(t),
        KeyMode::Str => run_c16::<String>(t),
    }
}
pub fn exec_c17(t: &Case) -> CaseReport {
    match t.keys {
        KeyMode::Tracked => run_c17::<TKey>(t),
        KeyMode::Str => run_c17::<String>(t),
    }
}

pub fn check_c13(ctx: &Ctx, out: &mut Outcome, q: u32, t: u32) {
    let mut profile = Profile::base(ctx.tier == Tier::Thorough);
    profile.str_pct = 10;
    profile.w_clone = 0;
    profile.hashers = ALL_HASHERS.to_vec();
    let strat = move || c13_strategy(&profile);
    journal_for(ctx, "c13");
    let (acc, found) = run_engine(&strat, &exec_c13, &|c: &C13Case| c.case.clone(), &ctx.id, ctx.seed, 13, ctx.workers, ctx.cases(q, t), &ctx.known);
    let rule = "generated history H plus generated insertion points and read-only calls (peek, peek_mut without write, contains, len/cap/is_empty, peek_lru/peek_mru variants, get_mru, every iterator family fully or partially consumed, per-segment accessors, Debug); H runs on A, H with insertions on B; non-trivial = an inserted call targeted a resident non-MRU entry and a later op evicted something; distinct by case hash";
    let shrink = |t: &C13Case, f: &dyn Fn(&C13Case) -> bool| -> C13Case {
        let mut cur = t.clone();
        // drop inserted calls one by one, then minimise the history
        let mut i = 0;
        while i < cur.ins.len() {
            let mut c = cur.clone();
            c.ins.remove(i);
            if f(&c) {
                cur = c;
            } else {
                i += 1;
            }
        }
        let ins = cur.ins.clone();
        let case = minimize(&cur.case, &|c: &Case| f(&C13Case { case: c.clone(), ins: ins.clone() }));
        C13Case { case, ins }
    };
    finish(ctx, rule, acc, found, out, "c13", &exec_c13, &shrink);
}

pub fn check_c16(ctx: &Ctx, out: &mut Outcome, q: u32, t: u32) {
    let mut profile = Profile::base(ctx.tier == Tier::Thorough).only(&[Kind::Lru, Kind::LruCb, Kind::LruCbD, Kind::Seg, Kind::Wtl]);
    profile.hashers = ALL_HASHERS.to_vec();
    profile.w_clone = 1;
    profile.max_ops = if ctx.tier == Tier::Thorough { 80 } else { 30 };
    let strat = move || c16_strategy(&profile);
    journal_for(ctx, "c16");
    let (acc, found) = run_engine(&strat, &exec_c16, &|c: &C16Case| c.case.clone(), &ctx.id, ctx.seed, 16, ctx.workers, ctx.cases(q, t), &ctx.known);
    let rule = "generated prefix -> clone -> compare (capacity, every segment's order and values, estimator dump) -> lock-step suffix on both -> divergent suffix on / drop of one of them while the other is observed, over RawLRU (with and without callback), SegmentedCache, WTinyLFUCache and all hashers incl. RandomState; non-trivial = the clone was taken with >= 3 entries in non-insertion order and the suffix evicted; distinct by case hash";
    let shrink = |t: &C16Case, f: &dyn Fn(&C16Case) -> bool| -> C16Case {
        let mut cur = t.clone();
        for which in 0..2 {
            let mut i = 0;
            loop {
                let mut c = cur.clone();
                let v = if which == 0 { &mut c.lock } else { &mut c.diverge };
                if i >= v.len() {
                    break;
                }
                v.remove(i);
                if f(&c) {
                    cur = c;
                } else {
                    i += 1;
                }
            }
        }
        let rest = cur.clone();
        let case = minimize(&cur.case, &|c: &Case| f(&C16Case { case: c.clone(), ..rest.clone() }));
        C16Case { case, ..rest }
    };
    finish(ctx, rule, acc, found, out, "c16", &exec_c16, &shrink);
}

pub fn check_c17(ctx: &Ctx, out: &mut Outcome, q: u32, t: u32) {
    let mut profile = Profile::base(ctx.tier == Tier::Thorough);
    profile.key_hashers = vec![KhSpec::Ident, KhSpec::Const, KhSpec::Fnv(3)];
    profile.w_clone = 4;
    profile.w_resize = 4;
    profile.w_purge = 2;
    profile.kinds.retain(|(_, k)| *k != Kind::LruCbD);
    let strat = move || case_strategy(&profile);
    journal_for(ctx, "c17");
    let (acc, found) = run_engine(&strat, &exec_c17, &|c: &Case| c.clone(), &ctx.id, ctx.seed, 17, ctx.workers, ctx.cases(q, t), &ctx.known);
    let rule = "the same generated history (incl. clone, purge, resize) on six instances whose inner lists use different BuildHashers (two FNV seeds, identity, constant-zero, two differently seeded RandomStates, mixed per list); every result and state view must be identical across instances (W-TinyLFU: same key hasher and pinned sketch seed, so the verdicts are the same); non-trivial = at least one eviction and, for cloneable kinds, a clone of >= 3 entries; distinct by case hash";
    finish(ctx, rule, acc, found, out, "c17", &exec_c17, &|c, f| minimize(c, f));
}

/// replay a case file written by a check
pub fn replay_file(path: &str) -> Result<Option<Violation>, String> {
    let text = std::fs::read_to_string(path).map_err(|e| e.to_string())?;
    let v: Value = serde_json::from_str(&text).map_err(|e| e.to_string())?;
    let prop = v["property"].as_str().unwrap_or("");
    let engine = v["engine"].as_str().unwrap_or("e1");
    if let Some(cs) = v["cases"].as_array() {
        // a worker's journaled tail: the cases in order, on this one thread (crash attribution
        // for damage that only shows in a later case)
        // every case is executed (a crash further on is what the caller looks for); the first
        // in-process violation is reported at the end together with its index
        let mut first = None;
        for (i, c) in cs.iter().enumerate() {
            if let Some(x) = crate::registry::replay(prop, engine, c)? {
                if first.is_none() {
                    println!("TAIL-INDEX {}", i);
                    first = Some(x);
                }
            }
        }
        return Ok(first);
    }
    crate::registry::replay(prop, engine, &v["case"])
}

pub fn check_tinylfu(ctx: &Ctx, prop: E7Prop, out: &mut Outcome, q: u32, t: u32, rule: &str) {
    let th = ctx.tier == Tier::Thorough;
    let strat = move || tcase_strategy(th);
    let exec = move |c: &TCase| {
        let mut r = run_tinylfu(c, prop);
        if prop == E7Prop::C11 && r.violation.is_none() && r.aborted_by_panic.is_none() {
            r.violation = crate::e7::run_tinylfu_str(c);
        }
        r
    };
    let dummy = |_c: &TCase| Case { kind: Kind::Wtl, cfg: Cfg::simple(1), keys: KeyMode::Tracked, alphabet: 0, ops: vec![] };
    let hash_case = |c: &TCase| {
        let mut d = dummy(c);
        // distinctness: fold the serialised component case into the alphabet/cfg fields
        let h = fnv64(serde_json::to_string(c).unwrap_or_default().as_bytes());
        d.cfg.sketch_seed = Some(h);
        d
    };
    journal_for(ctx, "tinylfu");
    let (acc, found) = run_engine(&strat, &exec, &hash_case, &ctx.id, ctx.seed, 0x711 + prop as u64, ctx.workers, ctx.cases(q, t), &ctx.known);
    let shrink = |c: &TCase, f: &dyn Fn(&TCase) -> bool| -> TCase {
        let mut cur = c.clone();
        let mut i = 0;
        while i < cur.ops.len() {
            let mut x = cur.clone();
            x.ops.remove(i);
            if f(&x) {
                cur = x;
            } else {
                i += 1;
            }
        }
        cur
    };
    finish(ctx, rule, acc, found, out, "tinylfu", &exec, &shrink);
}

/// conversions (`From<collection>`, `collect()`) from sources with repeated keys, then a short history
pub fn check_conv(ctx: &Ctx, prop: crate::conv::ConvProp, out: &mut Outcome, q: u32, t: u32) {
    use crate::conv::*;
    let th = ctx.tier == Tier::Thorough;
    let strat = move || conv_strategy(th);
    let exec = move |c: &ConvCase| run_conv(c, prop);
    let hash_case = |c: &ConvCase| {
        let mut d = Case { kind: Kind::Lru, cfg: Cfg::simple(1), keys: KeyMode::Tracked, alphabet: 0, ops: vec![] };
        d.cfg.sketch_seed = Some(fnv64(serde_json::to_string(c).unwrap_or_default().as_bytes()));
        d
    };
    journal_for(ctx, "conv");
    let (acc, found) = run_engine(&strat, &exec, &hash_case, &ctx.id, ctx.seed, 0x7c0 + prop as u64, ctx.workers, ctx.cases(q, t), &ctx.known);
    let shrink = |c: &ConvCase, f: &dyn Fn(&ConvCase) -> bool| -> ConvCase {
        let mut cur = c.clone();
        let mut i = 0;
        while i < cur.ops.len() {
            let mut x = cur.clone();
            x.ops.remove(i);
            if f(&x) {
                cur = x;
            } else {
                i += 1;
            }
        }
        let mut i = 0;
        while i < cur.items.len() {
            let mut x = cur.clone();
            x.items.remove(i);
            if f(&x) {
                cur = x;
            } else {
                i += 1;
            }
        }
        cur
    };
    finish(ctx, "", acc, found, out, "conv", &exec, &shrink);
}

/// value-type independence of the policy (zero-sized, tiny, over-aligned, heap-owning values)
pub fn check_vtype(ctx: &Ctx, kind: Kind, out: &mut Outcome, q: u32, t: u32) {
    use crate::vtype::*;
    let th = ctx.tier == Tier::Thorough;
    let strat = move || vcase_strategy(kind, th);
    let exec = |c: &VCase| run_vtype(c);
    let hash_case = |c: &VCase| {
        let mut d = Case { kind: c.kind, cfg: Cfg::simple(c.a), keys: KeyMode::Tracked, alphabet: 0, ops: vec![] };
        d.cfg.sketch_seed = Some(fnv64(serde_json::to_string(c).unwrap_or_default().as_bytes()));
        d
    };
    journal_for(ctx, "vtype");
    let (acc, found) = run_engine(&strat, &exec, &hash_case, &ctx.id, ctx.seed, 0x7d0 + kind as u64, ctx.workers, ctx.cases(q, t), &ctx.known);
    let shrink = |c: &VCase, f: &dyn Fn(&VCase) -> bool| -> VCase {
        let mut cur = c.clone();
        let mut i = 0;
        while i < cur.ops.len() {
            let mut x = cur.clone();
            x.ops.remove(i);
            if f(&x) {
                cur = x;
            } else {
                i += 1;
            }
        }
        cur
    };
    finish(ctx, "", acc, found, out, "vtype", &exec, &shrink);
}

/// C05, thorough tier only: long runs on estimators whose every insertion does a lot of internal
/// work (a subnormal false-positive ratio gives ~1000 doorkeeper probes per insertion), so that
/// internal event counters pass 2^32 within seconds
pub fn check_long_runs(ctx: &Ctx, out: &mut Outcome) {
    use caches::lfu::TinyLFU;
    if ctx.tier != Tier::Thorough || ctx.scale < 1.0 {
        return;
    }
    let configs: Vec<(usize, usize, f64)> = vec![(1, 1, f64::from_bits(1)), (4, 3, f64::MIN_POSITIVE), (16, 64, 1e-300), (2, 2, 1e-9)];
    let results: Vec<Option<String>> = std::thread::scope(|sc| {
        let hs: Vec<_> = configs
            .iter()
            .map(|&(size, samples, fp)| {
                sc.spawn(move || {
                    crate::inst::thread_init();
                    let r = std::panic::catch_unwind(|| {
                        let mut t: TinyLFU<u64> = match TinyLFU::new(size, samples, fp) {
                            Ok(t) => t,
                            Err(_) => return,
                        };
                        for i in 0..4_500_000u64 {
                            t.increment_hashed_key(i.wrapping_mul(0x9E3779B97F4A7C15));
                            if i % 1_000_003 == 0 {
                                let _ = t.estimate_hashed_key(i);
                            }
                        }
                    });
                    r.err().map(|_| {
                        let (loc, msg) = crate::inst::take_last_panic().unwrap_or_default();
                        format!("TinyLFU::new({size}, {samples}, {fp:e}) panicked at {loc} during a run of 4.5 M increment_hashed_key calls: {msg}")
                    })
                })
            })
            .collect();
        hs.into_iter().map(|h| h.join().unwrap_or(None)).collect()
    });
    out.coverage.insert("long_runs".into(), json!(configs.len()));
    if let Some(msg) = results.into_iter().flatten().next() {
        let v = Violation { prop: "C05", step: 0, msg, sig: "longrun/-/panic".into() };
        if ctx.known.matches(&ctx.id, &v.sig).is_none() {
            let path = write_replay(&ctx.replay_dir(), &ctx.id, "longrun", json!({"scenario": "4.5 M increments on estimators with subnormal false-positive ratios"}), &v);
            out.violations.push((path, v.msg));
        }
    }
}

/// C11, thorough tier only: a sample window longer than 2^32 events (the reset must come exactly
/// when the number of events reaches the sample size, also beyond the 32-bit range)
pub fn check_c11_long(ctx: &Ctx, out: &mut Outcome) {
    use caches::lfu::TinyLFU;
    if ctx.tier != Tier::Thorough || ctx.scale < 1.0 || cfg!(target_pointer_width = "32") {
        return;
    }
    let samples: usize = (1usize << 32) + 8;
    let r = std::panic::catch_unwind(|| -> Option<String> {
        let mut t: TinyLFU<u64> = TinyLFU::new(4, samples, 0.999999).ok()?;
        let h = 0x9E37_79B9_7F4A_7C15u64;
        for _ in 0..5 {
            t.increment_hashed_key(h);
        }
        for _ in 0..(samples - 5 - 1) {
            t.try_reset();
        }
        if !t.contains_hash(h) {
            return Some(format!("TinyLFU with samples = 2^32 + 8: after 5 recorded accesses and {} explicit try_reset calls ({} events, one short of the sample size) the doorkeeper no longer contains the recorded hash: a reset came early", samples - 6, samples - 1));
        }
        t.try_reset();
        if t.contains_hash(h) {
            return Some("TinyLFU with samples = 2^32 + 8: no reset although exactly `samples` events (accesses + try_reset calls) were recorded since construction".to_string());
        }
        None
    });
    out.coverage.insert("long_window_events".into(), json!(samples as u64));
    let msg = match r {
        Ok(m) => m,
        Err(_) => {
            let (loc, msg) = crate::inst::take_last_panic().unwrap_or_default();
            Some(format!("TinyLFU with samples = 2^32 + 8 panicked at {loc}: {msg}"))
        }
    };
    if let Some(msg) = msg {
        let v = Violation { prop: "C11", step: 0, msg, sig: "tinylfu/-/long-window".into() };
        if ctx.known.matches(&ctx.id, &v.sig).is_none() {
            let path = write_replay(&ctx.replay_dir(), &ctx.id, "longwindow", json!({"scenario": "samples = 2^32 + 8"}), &v);
            out.violations.push((path, v.msg));
        }
    }
}

/// C19 at run time: every `&self` method from several threads at once on a shared cache
pub fn check_conc(ctx: &Ctx, out: &mut Outcome) {
    let (made, bad) = crate::conc::run_conc(ctx.tier == Tier::Thorough);
    out.coverage.insert("concurrent_reader_observations".into(), json!(made));
    if let Some(msg) = bad {
        let v = Violation { prop: "C19", step: 0, msg, sig: "conc/-/shared-readers-disagree".into() };
        if ctx.known.matches(&ctx.id, &v.sig).is_none() {
            let path = write_replay(&ctx.replay_dir(), &ctx.id, "conc", json!({"scenario": "6 threads, every &self method, prefilled caches of all five kinds"}), &v);
            out.violations.push((path, v.msg));
        }
    }
}

/// C19: no two live `&mut` to one value through the mutable iterators (run-time side)
pub fn check_alias(ctx: &Ctx, out: &mut Outcome, q: u32, t: u32) {
    use crate::alias::*;
    let th = ctx.tier == Tier::Thorough;
    let strat = move || acase_strategy(th);
    let exec = |c: &ACase| run_alias(c);
    let hash_case = |c: &ACase| {
        let mut d = Case { kind: Kind::Lru, cfg: Cfg::simple(16), keys: KeyMode::Tracked, alphabet: 0, ops: vec![] };
        d.cfg.sketch_seed = Some(fnv64(serde_json::to_string(c).unwrap_or_default().as_bytes()));
        d
    };
    journal_for(ctx, "alias");
    let (acc, found) = run_engine(&strat, &exec, &hash_case, &ctx.id, ctx.seed, 0xa11a5, ctx.workers, ctx.cases(q, t), &ctx.known);
    let shrink = |c: &ACase, f: &dyn Fn(&ACase) -> bool| -> ACase {
        let mut cur = c.clone();
        let mut i = 0;
        while i < cur.steps.len() {
            let mut x = cur.clone();
            x.steps.remove(i);
            if f(&x) {
                cur = x;
            } else {
                i += 1;
            }
        }
        while !cur.touches.is_empty() {
            let mut x = cur.clone();
            x.touches.pop();
            if f(&x) {
                cur = x;
            } else {
                break;
            }
        }
        while cur.n > 0 {
            let mut x = cur.clone();
            x.n -= 1;
            if f(&x) {
                cur = x;
            } else {
                break;
            }
        }
        cur
    };
    finish(ctx, "", acc, found, out, "alias", &exec, &shrink);
}

/// C02 with key types whose borrowed form is unsized (prefix slices of one buffer, paths)
pub fn check_keys(ctx: &Ctx, out: &mut Outcome, q: u32, t: u32) {
    use crate::keys::*;
    let th = ctx.tier == Tier::Thorough;
    let strat = move || kcase_strategy(th);
    let exec = |c: &KCase| run_keys(c);
    let hash_case = |c: &KCase| {
        let mut d = Case { kind: c.kind, cfg: Cfg::simple(c.cap), keys: KeyMode::Tracked, alphabet: 0, ops: vec![] };
        d.cfg.sketch_seed = Some(fnv64(serde_json::to_string(c).unwrap_or_default().as_bytes()));
        d
    };
    journal_for(ctx, "keys");
    let (acc, found) = run_engine(&strat, &exec, &hash_case, &ctx.id, ctx.seed, 0x7e15, ctx.workers, ctx.cases(q, t), &ctx.known);
    let shrink = |c: &KCase, f: &dyn Fn(&KCase) -> bool| -> KCase {
        let mut cur = c.clone();
        let mut i = 0;
        while i < cur.ops.len() {
            let mut x = cur.clone();
            x.ops.remove(i);
            if f(&x) {
                cur = x;
            } else {
                i += 1;
            }
        }
        cur
    };
    finish(ctx, "", acc, found, out, "keys", &exec, &shrink);
}

/// C08: the victim rule around the quota at several scales
pub fn check_twoq_victim_grid(ctx: &Ctx, out: &mut Outcome) {
    let (reached, tried, bad) = crate::big::twoq_victim_grid(ctx.tier == Tier::Thorough);
    out.coverage.insert("twoq_victim_grid_cases_reached".into(), json!(reached));
    out.coverage.insert("twoq_victim_grid_cases_attempted".into(), json!(tried));
    if let Some(msg) = bad {
        let v = Violation { prop: "C08", step: 0, msg, sig: "twoq/-/victim-grid".into() };
        if ctx.known.matches(&ctx.id, &v.sig).is_none() {
            let path = write_replay(&ctx.replay_dir(), &ctx.id, "twoqgrid", json!({"grid": "recent_len - quota in -2..=3, sizes 2 .. 66 000"}), &v);
            out.violations.push((path, v.msg));
        }
    }
}

/// C09: the adaptation formula over a grid of ghost-list lengths
pub fn check_arc_grid(ctx: &Ctx, out: &mut Outcome) {
    let (reached, tried, bad) = crate::big::arc_adaptation_grid(ctx.tier == Tier::Thorough, ctx.workers);
    out.coverage.insert("arc_adaptation_grid_pairs_reached".into(), json!(reached));
    out.coverage.insert("arc_adaptation_grid_pairs_attempted".into(), json!(tried));
    if let Some(msg) = bad {
        let v = Violation { prop: "C09", step: 0, msg, sig: "arc/-/adaptation-grid".into() };
        if ctx.known.matches(&ctx.id, &v.sig).is_none() {
            let path = write_replay(&ctx.replay_dir(), &ctx.id, "arcgrid", json!({"grid": "ghost-list lengths x, y"}), &v);
            out.violations.push((path, v.msg));
        }
    }
}

/// large-scale pass (10^3 .. 1.3 * 10^5 entries): code gated by size constants
pub fn check_big(ctx: &Ctx, prop: crate::big::BigProp, kinds: &[Kind], out: &mut Outcome, q: u32, t: u32) {
    use crate::big::*;
    // (the Miri sample runs at a tiny scale: a prefill of 10^5 entries is out of its reach)
    if ctx.scale < 0.1 {
        return;
    }
    let th = ctx.tier == Tier::Thorough;
    let kinds = kinds.to_vec();
    let strat = move || big_strategy(kinds.clone(), th);
    let exec = move |c: &BigCase| run_big(c, prop);
    let hash_case = |c: &BigCase| {
        let mut d = Case { kind: c.kind, cfg: Cfg::simple(c.a as usize), keys: KeyMode::Tracked, alphabet: 0, ops: vec![] };
        d.cfg.sketch_seed = Some(fnv64(serde_json::to_string(c).unwrap_or_default().as_bytes()));
        d
    };
    journal_for(ctx, "big");
    let (acc, found) = run_engine(&strat, &exec, &hash_case, &ctx.id, ctx.seed, 0x7b16 + prop as u64, ctx.workers, ctx.cases(q, t), &ctx.known);
    let shrink = |c: &BigCase, f: &dyn Fn(&BigCase) -> bool| -> BigCase {
        let mut cur = c.clone();
        let mut i = 0;
        while i < cur.ops.len() {
            let mut x = cur.clone();
            x.ops.remove(i);
            if f(&x) {
                cur = x;
            } else {
                i += 1;
            }
        }
        cur
    };
    finish(ctx, "", acc, found, out, "big", &exec, &shrink);
}

/// C17 over conversions: the same ordered source converted twice gives the same cache
pub fn check_conv_det(ctx: &Ctx, out: &mut Outcome, q: u32, t: u32) {
    use crate::conv::*;
    let th = ctx.tier == Tier::Thorough;
    let strat = move || conv_strategy(th);
    let exec = |c: &ConvCase| run_conv_det(c);
    let hash_case = |c: &ConvCase| {
        let mut d = Case { kind: Kind::Lru, cfg: Cfg::simple(1), keys: KeyMode::Tracked, alphabet: 0, ops: vec![] };
        d.cfg.sketch_seed = Some(fnv64(serde_json::to_string(c).unwrap_or_default().as_bytes()));
        d
    };
    journal_for(ctx, "convd");
    let (acc, found) = run_engine(&strat, &exec, &hash_case, &ctx.id, ctx.seed, 0x7e8, ctx.workers, ctx.cases(q, t), &ctx.known);
    let shrink = |c: &ConvCase, f: &dyn Fn(&ConvCase) -> bool| -> ConvCase {
        let mut cur = c.clone();
        let mut i = 0;
        while i < cur.ops.len() {
            let mut x = cur.clone();
            x.ops.remove(i);
            if f(&x) {
                cur = x;
            } else {
                i += 1;
            }
        }
        cur
    };
    finish(ctx, "", acc, found, out, "convd", &exec, &shrink);
}

/// C18 over conversions: every user-code call of (conversion, history, drop) is a crash point
pub fn check_conv_faults(ctx: &Ctx, out: &mut Outcome, q: u32, t: u32) {
    use crate::conv::*;
    let th = ctx.tier == Tier::Thorough;
    let strat = move || conv_strategy(th);
    let exec = |c: &ConvCase| run_conv_faults(c);
    let hash_case = |c: &ConvCase| {
        let mut d = Case { kind: Kind::Lru, cfg: Cfg::simple(1), keys: KeyMode::Tracked, alphabet: 0, ops: vec![] };
        d.cfg.sketch_seed = Some(fnv64(serde_json::to_string(c).unwrap_or_default().as_bytes()));
        d
    };
    journal_for(ctx, "convf");
    let (acc, found) = run_engine(&strat, &exec, &hash_case, &ctx.id, ctx.seed, 0x7e0, ctx.workers, ctx.cases(q, t), &ctx.known);
    let shrink = |c: &ConvCase, f: &dyn Fn(&ConvCase) -> bool| -> ConvCase {
        let mut cur = c.clone();
        let mut i = 0;
        while i < cur.ops.len() {
            let mut x = cur.clone();
            x.ops.remove(i);
            if f(&x) {
                cur = x;
            } else {
                i += 1;
            }
        }
        let mut i = 0;
        while i < cur.items.len() {
            let mut x = cur.clone();
            x.items.remove(i);
            if f(&x) {
                cur = x;
            } else {
                i += 1;
            }
        }
        cur
    };
    finish(ctx, "", acc, found, out, "convf", &exec, &shrink);
}

/// C04 with key / value types of which only one has a destructor, all five cache kinds
pub fn check_dropglue(ctx: &Ctx, out: &mut Outcome, q: u32, t: u32) {
    use crate::vtype::*;
    let th = ctx.tier == Tier::Thorough;
    let strat = move || {
        use proptest::strategy::Strategy;
        proptest::strategy::Union::new(vec![vcase_strategy(Kind::Lru, th), vcase_strategy(Kind::Seg, th), vcase_strategy(Kind::TwoQ, th), vcase_strategy(Kind::Arc, th), vcase_strategy(Kind::Wtl, th)]).boxed()
    };
    let exec = |c: &VCase| run_dropglue(c);
    let hash_case = |c: &VCase| {
        let mut d = Case { kind: c.kind, cfg: Cfg::simple(c.a), keys: KeyMode::Tracked, alphabet: 0, ops: vec![] };
        d.cfg.sketch_seed = Some(fnv64(serde_json::to_string(c).unwrap_or_default().as_bytes()));
        d
    };
    journal_for(ctx, "dropglue");
    let (acc, found) = run_engine(&strat, &exec, &hash_case, &ctx.id, ctx.seed, 0x7f0, ctx.workers, ctx.cases(q, t), &ctx.known);
    let shrink = |c: &VCase, f: &dyn Fn(&VCase) -> bool| -> VCase {
        let mut cur = c.clone();
        let mut i = 0;
        while i < cur.ops.len() {
            let mut x = cur.clone();
            x.ops.remove(i);
            if f(&x) {
                cur = x;
            } else {
                i += 1;
            }
        }
        cur
    };
    finish(ctx, "", acc, found, out, "dropglue", &exec, &shrink);
}

pub fn check_sampled(ctx: &Ctx, prop: E7Prop, out: &mut Outcome, q: u32, t: u32, rule: &str) {
    let th = ctx.tier == Tier::Thorough;
    let strat = move || scase_strategy(th, prop == E7Prop::C20);
    let exec = move |c: &SCase| {
        let mut r = run_sampled(c, prop);
        if prop == E7Prop::C20 && r.violation.is_none() && r.aborted_by_panic.is_none() {
            r.violation = crate::e7::run_sampled_str(c);
        }
        r
    };
    let hash_case = |c: &SCase| {
        let mut d = Case { kind: Kind::Lru, cfg: Cfg::simple(1), keys: KeyMode::Tracked, alphabet: 0, ops: vec![] };
        d.cfg.sketch_seed = Some(fnv64(serde_json::to_string(c).unwrap_or_default().as_bytes()));
        d
    };
    journal_for(ctx, "sampled");
    let (acc, found) = run_engine(&strat, &exec, &hash_case, &ctx.id, ctx.seed, 0x720 + prop as u64, ctx.workers, ctx.cases(q, t), &ctx.known);
    let shrink = |c: &SCase, f: &dyn Fn(&SCase) -> bool| -> SCase {
        let mut cur = c.clone();
        let mut i = 0;
        while i < cur.ops.len() {
            let mut x = cur.clone();
            x.ops.remove(i);
            if f(&x) {
                cur = x;
            } else {
                i += 1;
            }
        }
        cur
    };
    finish(ctx, rule, acc, found, out, "sampled", &exec, &shrink);
}

/// two generated component cases written out as evidence samples
pub fn push_component_samples<T: serde::Serialize + std::fmt::Debug>(out: &mut Outcome, strat: &proptest::strategy::BoxedStrategy<T>, seed: u64) {
    use proptest::strategy::{Strategy, ValueTree};
    let mut runner = proptest::test_runner::TestRunner::new(proptest::test_runner::Config { rng_seed: rng_seed(seed, 0, 0x5a), failure_persistence: None, ..Default::default() });
    let mut samples = out.coverage.get("samples").and_then(|s| s.as_array().cloned()).unwrap_or_default();
    for _ in 0..2 {
        if let Ok(t) = strat.new_tree(&mut runner) {
            samples.push(serde_json::to_value(t.current()).unwrap_or(Value::Null));
        }
    }
    samples.truncate(5);
    out.coverage.insert("samples".into(), Value::Array(samples));
}

// ------------------------------------------------------------------------------ C05

fn call_strategy() -> proptest::strategy::BoxedStrategy<e6::Call> {
    use proptest::prelude::*;
    let size = || prop_oneof![4 => 0usize..6, 3 => 6usize..200, 1 => 200usize..5000];
    let fl = || prop_oneof![
        6 => (0u32..=1000).prop_map(|x| x as f64 / 1000.0),
        2 => prop::sample::select(e6::ratios()),
        2 => prop::sample::select(e6::fps()),
        2 => any::<f64>(),
        1 => (-3.0f64..3.0),
        1 => (1e-12f64..1e-3),
    ];
    let ctors = vec![
        "RawLRU::new", "RawLRU::with_hasher", "RawLRU::with_on_evict_cb", "RawLRU::with_on_evict_cb_and_hasher", "SegmentedCache::new", "SegmentedCache::builder",
        "SegmentedCache::from_builder", "TwoQueueCache::new", "TwoQueueCache::with_recent_ratio", "TwoQueueCache::with_ghost_ratio", "TwoQueueCache::with_2q_parameters",
        "TwoQueueCache::builder", "TwoQueueCache::from_builder", "TwoQueueCacheBuilder::new", "AdaptiveCache::new", "AdaptiveCache::builder", "AdaptiveCache::from_builder",
        "WTinyLFUCache::new", "WTinyLFUCache::with_sizes", "WTinyLFUCache::builder", "WTinyLFUCache::from_builder", "TinyLFU::new", "TinyLFUBuilder", "SampledLFU", "From",
    ];
    (prop::sample::select(ctors), size(), size(), size(), prop_oneof![3 => 0usize..70, 1 => 70usize..65536], fl(), fl())
        .prop_map(|(ctor, a, b, c, smp, f0, f1)| {
            let sizes = match ctor {
                "WTinyLFUCache::with_sizes" | "WTinyLFUCache::builder" | "WTinyLFUCache::from_builder" => vec![a, b, c, smp],
                "WTinyLFUCache::new" | "TinyLFU::new" | "TinyLFUBuilder" => vec![a, smp],
                "SampledLFU" => vec![a * 1000, smp % 100],
                "From" => vec![a % 16, b % 4],
                _ => vec![a, b],
            };
            // keep the doorkeeper small: tiny false-positive ratios only with moderate samples
            let f0 = if smp > 4096 && f0 > 0.0 && f0 < 1e-12 { 1e-12 } else { f0 };
            e6::Call::new(ctor, &sizes, &[f0, f1])
        })
        .boxed()
}

fn e6_report(c: &e6::Call) -> CaseReport {
    let (_r, v) = e6::judge(c);
    CaseReport { violation: v, nontrivial: e6::has_boundary(c), steps: 1, ..Default::default() }
}

pub fn check_c05(ctx: &Ctx, out: &mut Outcome) {
    // (a) the complete grid
    let grid = e6::grid();
    let n = grid.len();
    let workers = ctx.workers.max(1);
    let chunks: Vec<Vec<(usize, e6::Call)>> = (0..workers).map(|w| grid.iter().cloned().enumerate().filter(|(i, _)| i % workers == w).collect()).collect();
    // the grid is journaled like the generated engines: a call that aborts the process (failed
    // allocation, abort in the allocator) is attributed by the supervising parent
    let jdir = if std::env::var_os("VH_NO_JOURNAL").is_some() { None } else { Some(format!("{}/work/journal", ctx.verif_dir)) };
    if let Some(d) = &jdir {
        let _ = std::fs::create_dir_all(d);
    }
    let (jdir, prop_id) = (&jdir, ctx.id.as_str());
    let results: Vec<(u64, u64, std::collections::BTreeMap<String, u64>, Option<(usize, e6::Call, Violation)>)> = std::thread::scope(|sc| {
        let hs: Vec<_> = chunks
            .iter()
            .enumerate()
            .map(|(w, chunk)| {
                sc.spawn(move || {
                    crate::inst::thread_init();
                    let jpath = jdir.as_ref().map(|d| crate::runner::journal_path(d, prop_id, 100 + w));
                    let mut jfile = jpath.as_ref().and_then(|p| std::fs::OpenOptions::new().create(true).write(true).truncate(true).open(p).ok());
                    let mut nt = 0u64;
                    let mut ev = 0u64;
                    let mut outcomes: std::collections::BTreeMap<String, u64> = Default::default();
                    let mut first: Option<(usize, e6::Call, Violation)> = None;
                    for (i, c) in chunk {
                        if let Some(f) = jfile.as_mut() {
                            use std::io::{Seek, Write};
                            let mut body = serde_json::to_vec(&json!({"property": prop_id, "engine": "e6", "case": c, "observed": "journal entry: the process died while executing this call"})).unwrap_or_default();
                            body.push(b'\n');
                            let _ = f.seek(std::io::SeekFrom::Start(0));
                            let _ = f.write_all(&body);
                            let _ = f.set_len(body.len() as u64);
                        }
                        let (r, v) = e6::judge(c);
                        ev += 1;
                        if e6::has_boundary(c) {
                            nt += 1;
                        }
                        let key = match &r {
                            e6::Res::Ok => "ok".to_string(),
                            e6::Res::Err(e) => format!("err:{}", e),
                            e6::Res::Panic(..) => "panic".to_string(),
                        };
                        *outcomes.entry(key).or_default() += 1;
                        if let Some(v) = v {
                            if first.is_none() {
                                first = Some((*i, c.clone(), v));
                            }
                        }
                    }
                    drop(jfile);
                    if let Some(p) = &jpath {
                        let _ = std::fs::remove_file(p);
                    }
                    (ev, nt, outcomes, first)
                })
            })
            .collect();
        hs.into_iter().map(|h| h.join().expect("grid worker died")).collect()
    });
    let mut outcomes: std::collections::BTreeMap<String, u64> = Default::default();
    let (mut ev, mut nt) = (0u64, 0u64);
    let mut first: Option<(usize, e6::Call, Violation)> = None;
    for (e, t, o, f) in results {
        ev += e;
        nt += t;
        for (k, v) in o {
            *outcomes.entry(k).or_default() += v;
        }
        if let Some(f) = f {
            if first.as_ref().map(|x| f.0 < x.0).unwrap_or(true) {
                first = Some(f);
            }
        }
    }
    out.coverage.insert("grid_tuples".into(), json!(n));
    out.coverage.insert("grid_exhaustive".into(), json!(true));
    out.coverage.insert("grid_outcomes".into(), json!(outcomes));
    out.coverage.insert("evaluations".into(), json!(ev));
    out.coverage.insert("distinct_nontrivial".into(), json!(nt));
    out.coverage.insert(
        "rule".into(),
        json!("(a) complete cartesian grid of boundary arguments for every constructor / builder / from_builder / with_* / conversion (non-trivial = the tuple contains a boundary value: 0, 1, 4096, NaN, +-inf, <= 0, >= 1-eps, denormal; every grid tuple is distinct); (b) proptest-drawn argument tuples; (c) generated operation sequences (E1 over all cache kinds incl. resize to any value in 0..=2cap+1, E7 over TinyLFU and SampledLFU with extreme raw hashes) - non-trivial = the cache reached full and used >= 8 different operations; all in the std and in the no_std (hashbrown+libm) build with overflow checks on"),
    );
    let s0: Vec<Value> = grid.iter().step_by((n / 3).max(1)).take(3).map(|c| json!(c.describe())).collect();
    out.coverage.insert("samples".into(), Value::Array(s0));
    if let Some((_, call, v)) = first {
        if ctx.known.matches(&ctx.id, &v.sig).is_none() {
            let path = write_replay(&ctx.replay_dir(), &ctx.id, "e6", serde_json::to_value(&call).unwrap(), &v);
            out.violations.push((path, v.msg));
        }
    }
    // (b) drawn tuples
    journal_for(ctx, "e6");
    let (acc, found) = run_engine(&call_strategy, &e6_report, &|c: &e6::Call| {
        let mut d = Case { kind: Kind::Lru, cfg: Cfg::simple(1), keys: KeyMode::Tracked, alphabet: 0, ops: vec![] };
        d.cfg.sketch_seed = Some(fnv64(serde_json::to_string(c).unwrap_or_default().as_bytes()));
        d
    }, &ctx.id, ctx.seed, 0xe6, ctx.workers, ctx.cases(5000, 100000), &ctx.known);
    finish(ctx, "", acc, found, out, "e6", &e6_report, &|c, _f| c.clone());
    // (c) operation sequences
    check_e1(ctx, Prop::C05, out, 12000, 250000);
    check_tinylfu(ctx, E7Prop::C05, out, 5000, 100000, "");
    check_sampled(ctx, E7Prop::C05, out, 5000, 100000, "");
}

// ------------------------------------------------------------------------------ C18

pub fn exec_e4(c: &Case) -> CaseReport {
    crate::e4::run_e4::<TKey>(c)
}

pub fn check_c18(ctx: &Ctx, out: &mut Outcome, q: u32, t: u32) {
    let th = ctx.tier == Tier::Thorough;
    let mut profile = Profile::base(th);
    profile.max_ops = if th { 30 } else { 12 };
    profile.long_pct = 0;
    // deterministic hashers only: a history that kills the process must do so again when the
    // journaled case is replayed (RandomState would make the crash point wander)
    profile.hashers = vec![HSpec::Fnv(1), HSpec::Fnv(2), HSpec::Ident, HSpec::Zero, HSpec::Fnv(77)];
    profile.key_hashers = vec![KhSpec::Ident, KhSpec::Const, KhSpec::Fnv(3)];
    profile.kinds = vec![(2, Kind::Lru), (4, Kind::LruCb), (3, Kind::Seg), (4, Kind::TwoQ), (4, Kind::Arc), (4, Kind::Wtl)];
    profile.w_clone = 3;
    profile.w_purge = 2;
    profile.w_resize = 3;
    profile.w_remove = 7;
    profile.w_iter = 1;
    *crate::e4::E4_ACC.lock().unwrap() = None;
    let strat = move || case_strategy(&profile);
    journal_for(ctx, "e4");
    let (acc, found) = run_engine(&strat, &exec_e4, &|c: &Case| c.clone(), &ctx.id, ctx.seed, 0xe4, ctx.workers, ctx.cases(q, t), &ctx.known);
    let rule = "generated histories (<= 12 ops quick / <= 30 thorough, incl. clone, purge, resize, callback-carrying RawLRU) over all cache kinds; for each history EVERY call into user code (Hash, Eq, Clone, Drop of keys and values, BuildHasher::build_hasher, Hasher::finish, KeyHasher, eviction callback) is enumerated as a crash point: the history is re-run once per index with a panic injected there, the remaining ops run, the cache is inspected and dropped; non-trivial history = at least one injected panic fired inside a mutating library call; distinct by case hash";
    finish(ctx, rule, acc, found, out, "e4", &exec_e4, &|c, f| minimize(c, f));
    // second pass: long put-heavy "churn" histories on small caches. Only after many
    // insert/remove cycles does the hash index rehash *in place*, calling user code for every
    // entry; the short histories above never get there (this is how D17 was missed by the
    // quick tier and found by the thorough one)
    let mut churn = Profile::base(th);
    churn.min_ops = 24;
    churn.long_pct = 0;
    churn.max_ops = if th { 60 } else { 44 };
    churn.hashers = vec![HSpec::Fnv(1), HSpec::Ident, HSpec::Zero, HSpec::Fnv(77)];
    churn.key_hashers = vec![KhSpec::Ident, KhSpec::Const];
    churn.kinds = vec![(3, Kind::Lru), (2, Kind::LruCb), (3, Kind::Seg), (3, Kind::TwoQ), (3, Kind::Arc), (2, Kind::Wtl)];
    churn.w_put = 70;
    churn.w_get = 6;
    churn.w_get_mut = 2;
    churn.w_peek = 1;
    churn.w_remove = 8;
    churn.w_purge = 2;
    churn.w_query = 0;
    churn.w_lru_extra = 3;
    churn.w_resize = 2;
    churn.w_or_put = 3;
    churn.w_seg_extra = 6;
    churn.w_iter = 0;
    churn.w_clone = 1;
    let strat2 = move || case_strategy(&churn);
    journal_for(ctx, "e4");
    let (acc2, found2) = run_engine(&strat2, &exec_e4, &|c: &Case| c.clone(), &ctx.id, ctx.seed, 0xe44, ctx.workers, ctx.cases(q / 10, t / 10), &ctx.known);
    finish(ctx, rule, acc2, found2, out, "e4churn", &exec_e4, &|c, f| minimize(c, f));
    out.level = "fault_enumeration";
    if let Some(st) = crate::e4::E4_ACC.lock().unwrap().take() {
        out.coverage.insert("crash_points_enumerated".into(), json!(st.armed_runs));
        out.coverage.insert("injected_panics_fired".into(), json!(st.fired));
        out.coverage.insert("fired_inside_mutating_call".into(), json!(st.fired_in_mutating_op));
        out.coverage.insert("followup_panics_tolerated".into(), json!(st.followup_panics));
        out.coverage.insert("excluded_shrinking_resize_after_panic".into(), json!(st.excluded_resize_after_panic));
        let m: Map<String, Value> = st.by_class.iter().map(|((k, p), v)| (format!("{}/{}", k.short(), p), json!(v))).collect();
        out.coverage.insert("fired_by_kind_and_user_code".into(), Value::Object(m));
    }
}

// ------------------------------------------------------------------------------ C19

pub fn check_c19(ctx: &Ctx, out: &mut Outcome) {
    let r = crate::e5::run_e5(&ctx.verif_dir);
    out.coverage.insert("evaluations".into(), json!(r.programs + r.marker_rows));
    out.coverage.insert("distinct_nontrivial".into(), json!(r.probes + r.marker_rows));
    out.coverage.insert("programs".into(), json!(r.programs));
    out.coverage.insert("misuse_programs".into(), json!(r.probes));
    out.coverage.insert("positive_controls".into(), json!(r.controls));
    out.coverage.insert("marker_table_rows".into(), json!(r.marker_rows));
    out.coverage.insert("marker_table_exhaustive".into(), json!(true));
    out.coverage.insert("programs_by_template".into(), json!(r.by_template));
    out.coverage.insert("catalogue_methods".into(), json!(crate::e5::catalogue().len()));
    out.coverage.insert(
        "rule".into(),
        json!("program generator: every public reference- or iterator-returning method (catalogue checked against a source scan of the anchored files) x misuse templates {hold across purge, hold across put, drop the cache while borrowed, outlive the cache, two live &mut, copy / clone of a mutable borrow or iterator, iterator items across a mutation / past the cache, shared lookup while &mut is live, a shared borrow or a live iterator across a reordering call (get, get_lru, peek_or_put), send a shared-reference iterator over !Sync values / share or send a cache of !Sync / !Send values across threads}; each misuse program must be rejected with the expected error code inside its own function and its positive control (same statements, legal order / Sync value type) must compile; plus the complete Send/Sync table of the 5 cache and 10 iterator types over the 4x4 lattice K,V in {Send+Sync, Send only, Sync only, neither} and of every hasher / key-hasher / callback type parameter of every cache type over the same four kinds, judged by the implications soundness needs. Every (method, template) pair and every table row is a distinct non-trivial case."),
    );
    out.coverage.insert("samples".into(), Value::Array(r.samples.clone()));
    out.assumptions.push("rustc's borrow checker and trait solver are the oracle; a finite template set cannot show that no safe program misuses the API".into());
    if let Some((v, payload)) = r.violation {
        if ctx.known.matches(&ctx.id, &v.sig).is_none() {
            let path = write_replay(&ctx.replay_dir(), &ctx.id, "e5", payload, &v);
            out.violations.push((path, v.msg));
        } else {
            out.known_lines.push(format!("KNOWN-FINDING: property=C19 sig={}", v.sig));
        }
    }
    if let Some(why) = r.inconclusive {
        out.inconclusive = Some(why);
    }
}

// ------------------------------------------------------------------------------ E2

pub fn check_e2(ctx: &Ctx, prop: Prop, kinds: &[Kind], out: &mut Outcome) {
    let r = crate::e2::run_e2(kinds, prop, ctx.tier == Tier::Thorough, ctx.workers);
    let cov = &mut out.coverage;
    let cur = cov.get("evaluations").and_then(|x| x.as_u64()).unwrap_or(0);
    cov.insert("evaluations".into(), json!(cur + r.transitions));
    cov.insert("states".into(), json!(r.states));
    cov.insert("transitions".into(), json!(r.transitions));
    cov.insert("e2_max_depth".into(), json!(r.depth));
    cov.insert("e2_frontier_closed".into(), json!(r.closed));
    cov.insert("e2_configs".into(), Value::Array(r.per_config.clone()));
    cov.insert("e2_note".into(), json!("small-scope closure: reachable abstract model states (list orders, p) enumerated breadth-first; from every state every state-changing op x key (alphabet cap+2) executed on the real cache (driven along the stored path) and on the model with the property's oracle on"));
    if let Some((case, v)) = r.violation {
        if ctx.known.matches(&ctx.id, &v.sig).is_none() {
            let known = &ctx.known;
            let pid = ctx.id.clone();
            let fails = |c: &Case| -> bool { matches!(exec_case(c, prop).violation, Some(ref v) if known.matches(&pid, &v.sig).is_none()) };
            let min = minimize(&case, &fails);
            let v = exec_case(&min, prop).violation.unwrap_or(v);
            let path = write_replay(&ctx.replay_dir(), &ctx.id, "e2", serde_json::to_value(&min).unwrap(), &v);
            out.violations.push((path, v.msg));
        }
    }
}

pub fn case_json(c: &Case) -> String {
    serde_json::to_string(c).unwrap_or_default()
}

// ------------------------------------------------------------------------------ C12 laws

#[derive(Clone, Copy, Debug, PartialEq)]
enum MirrorPr {
    Put,
    Update(u32),
    Evicted(u16, u32),
    EvictedAndUpdate((u16, u32), u32),
}

/// structural laws of `PutResult` over the complete small domain (payloads 0..3): equality is
/// exactly "same variant, equal payloads", Clone and Copy preserve it, Debug does not panic
/// a key type with float equality (NaN != NaN) for the PutResult laws
#[derive(Clone, Copy, Debug, PartialEq)]
struct FKey(f64);

pub fn check_putresult_laws(ctx: &Ctx, out: &mut Outcome) {
    use caches::PutResult;
    let mut vals: Vec<(PutResult<u16, u32>, MirrorPr)> = vec![(PutResult::Put, MirrorPr::Put)];
    for a in 0..3u32 {
        vals.push((PutResult::Update(a), MirrorPr::Update(a)));
        for k in 0..3u16 {
            vals.push((PutResult::Evicted { key: k, value: a }, MirrorPr::Evicted(k, a)));
            for u in 0..3u32 {
                vals.push((PutResult::EvictedAndUpdate { evicted: (k, a), update: u }, MirrorPr::EvictedAndUpdate((k, a), u)));
            }
        }
    }
    let mut pairs = 0u64;
    let mut bad: Option<String> = None;
    let r = std::panic::catch_unwind(std::panic::AssertUnwindSafe(|| {
        for (a, ma) in vals.iter() {
            let c = a.clone();
            let d = *a; // Copy
            if !(c == *a) || !(d == *a) || !(*a == *a) {
                bad.get_or_insert(format!("{:?}: clone / copy / self comparison is not equal", ma));
            }
            let _ = format!("{:?}", a);
            for (b, mb) in vals.iter() {
                pairs += 1;
                #[allow(clippy::nonminimal_bool)]
                if (a != b) == (a == b) {
                    bad.get_or_insert(format!("{:?} and {:?}: `!=` is {} and `==` is {}", ma, mb, a != b, a == b));
                }
                if (a == b) != (ma == mb) || (a == b) != (b == a) {
                    bad.get_or_insert(format!("{:?} == {:?} is {}, structurally it is {}", ma, mb, a == b, ma == mb));
                }
            }
        }
    }));
    // clone_from must give exactly what clone gives (every pair of variants)
    let r0 = std::panic::catch_unwind(std::panic::AssertUnwindSafe(|| {
        for (a, ma) in vals.iter() {
            for (b, mb) in vals.iter() {
                let mut x = *a;
                x.clone_from(b);
                if x != *b {
                    bad.get_or_insert(format!("x = {:?}; x.clone_from(&{:?}) leaves x == {:?}", ma, mb, x));
                }
            }
        }
    }));
    if r.is_err() || r0.is_err() {
        bad = Some("a PutResult law check panicked".to_string());
    }
    // payloads whose own `==` is not reflexive (NaN) or not identity (0.0 == -0.0): "equal exactly
    // when the same variant with equal payloads" is what a derived PartialEq on a mirror type says
    #[derive(Clone, Copy, Debug, PartialEq)]
    enum MirrorF {
        Put,
        Update(f64),
        Evicted(f64, f64),
        EvictedAndUpdate((f64, f64), f64),
    }
    let fs = [0.0f64, -0.0, 1.5, f64::NAN];
    let mut fvals: Vec<(PutResult<FKey, f64>, MirrorF)> = vec![(PutResult::Put, MirrorF::Put)];
    for &a in &fs {
        fvals.push((PutResult::Update(a), MirrorF::Update(a)));
        for &k in &fs {
            fvals.push((PutResult::Evicted { key: FKey(k), value: a }, MirrorF::Evicted(k, a)));
            for &u in &fs {
                fvals.push((PutResult::EvictedAndUpdate { evicted: (FKey(k), a), update: u }, MirrorF::EvictedAndUpdate((k, a), u)));
            }
        }
    }
    let r2 = std::panic::catch_unwind(std::panic::AssertUnwindSafe(|| {
        for (a, ma) in fvals.iter() {
            let c = a.clone();
            let d = *a;
            let same: &PutResult<FKey, f64> = a; // the very same object on both sides
            if (a == same) != (ma == ma) || (c == *a) != (ma == ma) || (d == *a) != (ma == ma) {
                bad.get_or_insert(format!("{:?}: compared with itself / its clone / its copy gives ({}, {}, {}), structurally it is {}", ma, a == same, c == *a, d == *a, ma == ma));
            }
            for (b, mb) in fvals.iter() {
                pairs += 1;
                if (a == b) != (ma == mb) || (a != b) == (a == b) {
                    bad.get_or_insert(format!("{:?} == {:?} is {} (`!=` is {}), structurally it is {}", ma, mb, a == b, a != b, ma == mb));
                }
            }
        }
    }));
    if r2.is_err() {
        bad = Some("a PutResult law check panicked".to_string());
    }
    out.coverage.insert("putresult_values_f64_payloads".into(), json!(fvals.len()));
    out.coverage.insert("putresult_pairs_exhaustive".into(), json!(pairs));
    out.coverage.insert("putresult_values".into(), json!(vals.len()));
    if let Some(msg) = bad {
        let v = Violation { prop: "C12", step: 0, msg: format!("PutResult structural law broken: {}", msg), sig: "putresult/-/law".into() };
        if ctx.known.matches(&ctx.id, &v.sig).is_none() {
            let path = write_replay(&ctx.replay_dir(), &ctx.id, "putresult", json!({"domain": "all PutResult<u16,u32> values with payloads in 0..3"}), &v);
            out.violations.push((path, v.msg));
        }
    }
}

// ------------------------------------------------------------------------------ constructor contracts

#[derive(Clone)]
struct NopCb;
impl caches::OnEvictCallback for NopCb {
    fn on_evict<K, V>(&self, _: &K, _: &V) {}
}

/// C01: every constructor / builder path yields the configured capacities (exhaustive over a
/// small grid incl. sizes above 65536 and every order of the hasher setters)
pub fn check_ctor_caps(ctx: &Ctx, out: &mut Outcome) {
    check_ctor_caps_for(ctx, out, "C01")
}

pub fn check_ctor_caps_for(ctx: &Ctx, out: &mut Outcome, prop_id: &'static str) {
    use caches::*;
    let mut n_checked = 0u64;
    let mut bad: Option<String> = None;
    let mut note = |ok: bool, what: String, bad: &mut Option<String>| {
        if !ok && bad.is_none() {
            *bad = Some(what);
        }
    };
    let hb = || caches::DefaultHashBuilder::default();
    let r = std::panic::catch_unwind(std::panic::AssertUnwindSafe(|| {
        for &n in &[1usize, 2, 3, 7, 100, 4096, 65535, 65536, 65537, 100_000, 1 << 20] {
            n_checked += 4;
            note(RawLRU::<u64, u64>::new(n).map(|c| c.cap()) == Ok(n), format!("RawLRU::new({n}).cap() != {n}"), &mut bad);
            note(RawLRU::<u64, u64, DefaultEvictCallback, _>::with_hasher(n, hb()).map(|c| c.cap()) == Ok(n), format!("RawLRU::with_hasher({n}).cap() != {n}"), &mut bad);
            note(RawLRU::<u64, u64, NopCb>::with_on_evict_cb(n, NopCb).map(|c| c.cap()) == Ok(n), format!("RawLRU::with_on_evict_cb({n}).cap() != {n}"), &mut bad);
            note(RawLRU::<u64, u64, NopCb, _>::with_on_evict_cb_and_hasher(n, NopCb, hb()).map(|c| c.cap()) == Ok(n), format!("RawLRU::with_on_evict_cb_and_hasher({n}).cap() != {n}"), &mut bad);
        }
        for &(p, t) in &[(1usize, 1usize), (1, 5), (5, 1), (2, 3), (3, 2), (12, 3), (3, 12), (70_000, 3), (3, 70_000)] {
            let want = (p + t, p, t);
            let caps = |c: SegmentedCache<u64, u64, caches::DefaultHashBuilder, caches::DefaultHashBuilder>| (c.cap(), c.probationary_cap(), c.protected_cap());
            n_checked += 4;
            note(SegmentedCache::<u64, u64>::new(p, t).map(|c| (c.cap(), c.probationary_cap(), c.protected_cap())) == Ok(want), format!("SegmentedCache::new({p}, {t}) capacities != {:?}", want), &mut bad);
            note(SegmentedCacheBuilder::new(p, t).set_probationary_hasher(hb()).set_protected_hasher(hb()).finalize::<u64, u64>().map(caps) == Ok(want), format!("SegmentedCacheBuilder({p}, {t}) + probationary,protected hashers: capacities != {:?}", want), &mut bad);
            note(SegmentedCacheBuilder::new(p, t).set_protected_hasher(hb()).set_probationary_hasher(hb()).finalize::<u64, u64>().map(caps) == Ok(want), format!("SegmentedCacheBuilder({p}, {t}) + protected,probationary hashers: capacities != {:?}", want), &mut bad);
            note(SegmentedCacheBuilder::default().set_protected_size(t).set_probationary_hasher(hb()).set_probationary_size(p).set_protected_hasher(hb()).finalize::<u64, u64>().map(caps) == Ok(want), format!("SegmentedCacheBuilder::default() + setters ({p}, {t}): capacities != {:?}", want), &mut bad);
            // the segments themselves must be able to hold what the accessors promise
            let inner = |c: SegmentedCache<u64, u64, caches::DefaultHashBuilder, caches::DefaultHashBuilder>| c.verif_probationary().cap() >= p && c.verif_protected().cap() >= t;
            n_checked += 2;
            note(SegmentedCache::<u64, u64>::new(p, t).map(inner) == Ok(true), format!("SegmentedCache::new({p}, {t}): a segment's own list is smaller than the configured segment size"), &mut bad);
            note(SegmentedCacheBuilder::new(p, t).finalize::<u64, u64>().map(inner) == Ok(true), format!("SegmentedCacheBuilder({p}, {t}): a segment's own list is smaller than the configured segment size"), &mut bad);
        }
        for &n in &[1usize, 2, 3, 7, 100, 70_000] {
            n_checked += 4;
            note(AdaptiveCache::<u64, u64>::new(n).map(|c| c.cap()) == Ok(n), format!("AdaptiveCache::new({n}).cap() != {n}"), &mut bad);
            note(
                AdaptiveCacheBuilder::new(n).set_frequent_evict_hasher(hb()).set_recent_hasher(hb()).set_recent_evict_hasher(hb()).set_frequent_hasher(hb()).finalize::<u64, u64>().map(|c| c.cap()) == Ok(n),
                format!("AdaptiveCacheBuilder({n}) + hashers: cap() != {n}"),
                &mut bad,
            );
            n_checked += 1;
            note(
                AdaptiveCache::<u64, u64>::new(n).map(|c| c.verif_recent().cap() >= n && c.verif_frequent().cap() >= n) == Ok(true),
                format!("AdaptiveCache::new({n}): the recent or the frequent list is smaller than the cache size"),
                &mut bad,
            );
            note(TwoQueueCache::<u64, u64>::with_2q_parameters(n.max(2), 0.25, 0.5).map(|c| c.cap()) == Ok(n.max(2)), format!("TwoQueueCache::with_2q_parameters({n}): cap() != {n}"), &mut bad);
            note(
                TwoQueueCacheBuilder::new(n.max(2)).set_ghost_hasher(hb()).set_recent_hasher(hb()).set_frequent_hasher(hb()).finalize::<u64, u64>().map(|c| c.cap()) == Ok(n.max(2)),
                format!("TwoQueueCacheBuilder({n}) + hashers: cap() != {n}"),
                &mut bad,
            );
        }
        for &(w, p, t) in &[(1usize, 1usize, 1usize), (1, 6, 3), (3, 1, 6), (6, 3, 1), (2, 70_000, 5)] {
            let want = (w + p + t, w, p + t);
            n_checked += 2;
            note(WTinyLFUCache::<u64, u64>::with_sizes(w, p, t, 8).map(|c| (c.cap(), c.window_cache_cap(), c.main_cache_cap())).ok() == Some(want), format!("WTinyLFUCache::with_sizes({w}, {p}, {t}) capacities != {:?}", want), &mut bad);
            n_checked += 1;
            note(
                WTinyLFUCache::<u64, u64>::with_sizes(w, p, t, 8)
                    .map(|c| {
                        let m = c.verif_main();
                        c.verif_window().cap() >= w && m.verif_probationary().cap() >= m.probationary_cap() && m.verif_protected().cap() >= m.protected_cap() && m.probationary_cap() + m.protected_cap() == p + t
                    })
                    .ok()
                    == Some(true),
                format!("WTinyLFUCache::with_sizes({w}, {p}, {t}): the window or a main segment's own list is smaller than configured"),
                &mut bad,
            );
            let b: WTinyLFUCacheBuilder<u64> = WTinyLFUCacheBuilder::new(w, p, t, 8);
            let r: Result<WTinyLFUCache<u64, u64, _, _, _, _>, _> = b.set_probationary_hasher(hb()).set_window_hasher(hb()).set_protected_hasher(hb()).finalize();
            note(r.map(|c| (c.cap(), c.window_cache_cap(), c.main_cache_cap())).ok() == Some(want), format!("WTinyLFUCacheBuilder({w}, {p}, {t}) + hashers: capacities != {:?}", want), &mut bad);
        }
    }));
    if r.is_err() && bad.is_none() {
        bad = Some("a constructor panicked".to_string());
    }
    out.coverage.insert("constructor_capacity_contracts_checked".into(), json!(n_checked));
    if let Some(msg) = bad {
        let v = Violation { prop: prop_id, step: 0, msg: format!("a freshly constructed cache does not report (and so does not enforce) its configured capacity: {}", msg), sig: "ctor/-/capacity".into() };
        if ctx.known.matches(&ctx.id, &v.sig).is_none() {
            let path = write_replay(&ctx.replay_dir(), &ctx.id, "ctorcaps", json!({"grid": "constructor capacity contracts"}), &v);
            out.violations.push((path, v.msg));
        }
    }
}

/// C08: quota == floor(size x recent ratio), ghost bound == floor(size x ghost ratio), for
/// every size 1..=128 and every ratio q/size and k/100, through both construction paths
pub fn check_2q_quota_grid(ctx: &Ctx, out: &mut Outcome) {
    check_2q_quota_grid_for(ctx, out, "C08")
}

pub fn check_2q_quota_grid_for(ctx: &Ctx, out: &mut Outcome, prop_id: &'static str) {
    use caches::lru::{DEFAULT_2Q_GHOST_RATIO, DEFAULT_2Q_RECENT_RATIO};
    use caches::*;
    let mut n_checked = 0u64;
    let mut bad: Option<String> = None;
    let r = std::panic::catch_unwind(std::panic::AssertUnwindSafe(|| {
        // the convenience constructors: the ratio they do not take is the crate's exported default
        for size in (1usize..=128).chain([1000, 4096, 4097, 65_537, 1_000_003, (1 << 20) + 1, (1 << 21) + 7]) {
            let fl = |r: f64| (size as f64 * r).floor() as usize;
            // (the index of every list is pre-allocated: the largest sizes get a few ratios only)
            let ratios: Vec<f64> = if size > 200_000 { vec![0.25, 1.0] } else { (0..=20).map(|k| k as f64 / 20.0).chain([1.0 / 3.0, 0.29, 0.57, 0.58]).collect() };
            let mut see = |how: String, c: Result<TwoQueueCache<u64, u64>, caches::lru::CacheError>, q: usize, g: usize| {
                n_checked += 1;
                match c {
                    Ok(c) => {
                        let got = (c.cap(), c.verif_recent_quota(), c.verif_ghost().cap(), c.verif_recent().cap(), c.verif_frequent().cap());
                        if (got.0, got.1, got.2) != (size, q, g) || got.3 < size || got.4 < size {
                            bad.get_or_insert(format!("{how}: (cap, quota, ghost bound, recent list cap, frequent list cap) = {:?}, expected cap {size}, quota {q}, ghost bound {g}, list caps >= {size}", got));
                        }
                    }
                    Err(_) => {
                        if g >= 1 {
                            bad.get_or_insert(format!("{how}: rejected although floor(size x ghost ratio) = {g}"));
                        }
                    }
                }
            };
            see(format!("TwoQueueCache::new({size})"), TwoQueueCache::new(size), fl(DEFAULT_2Q_RECENT_RATIO), fl(DEFAULT_2Q_GHOST_RATIO));
            see(format!("TwoQueueCacheBuilder::new({size}).finalize()"), TwoQueueCacheBuilder::new(size).finalize(), fl(DEFAULT_2Q_RECENT_RATIO), fl(DEFAULT_2Q_GHOST_RATIO));
            for &r in &ratios {
                see(format!("TwoQueueCache::with_recent_ratio({size}, {r})"), TwoQueueCache::with_recent_ratio(size, r), fl(r), fl(DEFAULT_2Q_GHOST_RATIO));
                see(format!("TwoQueueCache::with_ghost_ratio({size}, {r})"), TwoQueueCache::with_ghost_ratio(size, r), fl(DEFAULT_2Q_RECENT_RATIO), fl(r));
                see(format!("TwoQueueCache::builder({size}).set_ghost_ratio({r})"), TwoQueueCache::from_builder(TwoQueueCache::<u64, u64>::builder(size).set_ghost_ratio(r)), fl(DEFAULT_2Q_RECENT_RATIO), fl(r));
                see(format!("TwoQueueCache::builder({size}).set_recent_ratio({r})"), TwoQueueCache::from_builder(TwoQueueCache::<u64, u64>::builder(size).set_recent_ratio(r)), fl(r), fl(DEFAULT_2Q_GHOST_RATIO));
            }
        }
        for size in (1usize..=128).chain([1000, 4096, 4097, 65_537]) {
            let mut ratios: Vec<f64> = (0..=size).map(|q| q as f64 / size as f64).collect();
            ratios.extend((0..=100).map(|k| k as f64 / 100.0));
            for (j, &rr) in ratios.iter().enumerate() {
                // pair every recent ratio with a rotating ghost ratio (and vice versa)
                let gr = ratios[(j * 7 + 3) % ratios.len()];
                let (q, g) = ((size as f64 * rr).floor() as usize, (size as f64 * gr).floor() as usize);
                let a = TwoQueueCache::<u64, u64>::with_2q_parameters(size, rr, gr);
                let b = TwoQueueCacheBuilder::new(size).set_recent_ratio(rr).set_ghost_ratio(gr).set_ghost_hasher(caches::DefaultHashBuilder::default()).set_recent_hasher(caches::DefaultHashBuilder::default()).finalize::<u64, u64>();
                n_checked += 2;
                for (how, c) in [("with_2q_parameters", a.ok().map(|c| (c.verif_recent_quota(), c.verif_ghost().cap()))), ("builder", b.ok().map(|c| (c.verif_recent_quota(), c.verif_ghost().cap())))] {
                    match c {
                        Some((rq, rg)) => {
                            if (rq, rg) != (q, g) && bad.is_none() {
                                bad = Some(format!("{how}: size {size}, recent ratio {rr}, ghost ratio {gr}: quota {rq} / ghost bound {rg}, floor(size x ratio) = {q} / {g}"));
                            }
                        }
                        None => {
                            if g >= 1 && bad.is_none() {
                                bad = Some(format!("{how}: size {size}, recent ratio {rr}, ghost ratio {gr} rejected although floor(size x ghost ratio) = {g}"));
                            }
                        }
                    }
                }
            }
        }
    }));
    if r.is_err() && bad.is_none() {
        bad = Some("a constructor panicked".to_string());
    }
    out.coverage.insert("quota_grid_constructions".into(), json!(n_checked));
    if let Some(msg) = bad {
        let v = Violation { prop: prop_id, step: 0, msg: format!("quota / ghost bound is not floor(size x ratio): {}", msg), sig: "ctor/-/quota".into() };
        if ctx.known.matches(&ctx.id, &v.sig).is_none() {
            let path = write_replay(&ctx.replay_dir(), &ctx.id, "quotagrid", json!({"grid": "size 1..=128 x ratios q/size, k/100"}), &v);
            out.violations.push((path, v.msg));
        }
    }
}
