//! E4 — fault enumeration (C18): for each generated history, every call into user code
//! (Hash / Eq / Clone / Drop of keys and values, BuildHasher, Hasher::finish, key hasher,
//! eviction callback) is a crash point. A dry run counts them; the history is then re-run once
//! per index with a panic injected at exactly that call. Afterwards the remaining operations
//! run, the cache is inspected and dropped.
//!
//! Oracle: no key/value is dropped twice, no operation ever touches a non-live (dropped,
//! freed or never initialised) object, everything still reachable through the cache is live,
//! no freed block is written to, and the process survives. Leaks and ordinary follow-up
//! panics are allowed by the statement.

use crate::alloc;
use crate::inst::*;
use crate::interp::{CaseReport, Violation};
use crate::ops::*;
use crate::sut::*;
use std::collections::BTreeMap;
use std::panic::{catch_unwind, AssertUnwindSafe};

#[derive(Default, Clone, Debug)]
pub struct E4Stats {
    pub armed_runs: u64,
    pub fired: u64,
    pub fired_in_mutating_op: u64,
    pub excluded_resize_after_panic: u64,
    pub by_class: BTreeMap<(Kind, &'static str), u64>,
    pub followup_panics: u64,
}

pub static E4_ACC: std::sync::Mutex<Option<E4Stats>> = std::sync::Mutex::new(None);

thread_local! {
    /// (case hash, armed index) currently executing, for the crash journal
    pub static E4_CURRENT: std::cell::Cell<(u64, i64)> = const { std::cell::Cell::new((0, -1)) };
}

fn mutating(op: &Op) -> bool {
    !op.is_read_only() && !matches!(op, Op::Get(..))
}

/// one execution of the history with the crash point `arm` (-1 = dry run);
/// returns (number of user-code calls seen, hazards, op index at which the panic fired)
fn one_run<K: KeyLike>(case: &Case, arm_at: i64, st: &mut E4Stats) -> (i64, Vec<String>, Option<usize>) {
    reset_case();
    alloc::set_quarantine(true);
    alloc::take_quarantine_damage();
    let kind = case.kind;
    let mut fired_at: Option<usize> = None;
    arm(arm_at);
    let built = catch_unwind(AssertUnwindSafe(|| Sut::<K>::build(kind, &case.cfg)));
    let mut sut = match built {
        Ok(Ok(s)) => Some(s),
        _ => None,
    };
    let mut clones: Vec<Sut<K>> = vec![];
    let mut hashmap_lost = false;
    if let Some(s) = sut.as_mut() {
        for (i, op) in case.ops.iter().enumerate() {
            if !op.supported(kind) {
                continue;
            }
            let already = fired().is_some();
            if already {
                if let Op::Resize(n) = op {
                    // O2: after a panic has orphaned a node, a shrinking resize can spin
                    // forever (a hang, not a memory hazard): excluded by construction
                    if resize_target(*n) < s.cap() {
                        st.excluded_resize_after_panic += 1;
                        continue;
                    }
                }
            }
            let r = catch_unwind(AssertUnwindSafe(|| match op {
                // keep clones alive until the end so that shared state would surface
                Op::CloneDrop => {
                    if let Some(c) = s.try_clone() {
                        clones.push(c);
                    }
                    Out::Unit
                }
                _ => s.apply(op, i),
            }));
            if std::env::var_os("VH_E4_TRACE").is_some() {
                eprintln!("op {} {:?} -> {} (points so far {}, fired {:?})", i, op, if r.is_err() { "PANIC" } else { "ok" }, points_seen(), fired());
            }
            if r.is_err() {
                let _ = take_last_panic();
                if !already && fired().is_some() {
                    fired_at = Some(i);
                } else {
                    st.followup_panics += 1;
                }
            }
            if has_bad() {
                break;
            }
            if fired().is_some() {
                // has the hash map itself lost track of entries? (std / hashbrown: a hasher that
                // panics during an in-place rehash leaves `len()` counting entries that can no
                // longer be found, and the map's iterators then run past the table). Everything
                // that iterates or grows such a map is undefined behaviour, so the run stops
                // here and the cache is leaked instead of dropped.
                let lost = catch_unwind(AssertUnwindSafe(|| s.index_lost())).unwrap_or(0);
                if lost > 0 {
                    bad(format!("HASHMAP-LOST-ENTRIES: after the injected panic the hash index of an inner list counts {} entr(y/ies) it cannot find any more (std HashMap left inconsistent by a panicking hasher during an in-place rehash); iterating, growing or dropping it reads outside the table", lost));
                    hashmap_lost = true;
                    break;
                }
            }
        }
        // everything still reachable must be live
        if !hashmap_lost {
            let _ = catch_unwind(AssertUnwindSafe(|| {
                let _ = s.view();
            }));
        }
        for c in clones.iter() {
            let _ = catch_unwind(AssertUnwindSafe(|| {
                let _ = c.view();
            }));
        }
    }
    let had_fired_before_drop = fired().is_some();
    if hashmap_lost {
        // dropping would iterate the inconsistent map: leak instead
        std::mem::forget(sut.take());
        while let Some(c) = clones.pop() {
            std::mem::forget(c);
        }
    }
    // drop the clones and the cache (Drop of keys/values is user code too)
    while let Some(c) = clones.pop() {
        if catch_unwind(AssertUnwindSafe(move || drop(c))).is_err() {
            let _ = take_last_panic();
        }
    }
    if let Some(s) = sut.take() {
        if catch_unwind(AssertUnwindSafe(move || drop(s))).is_err() {
            let _ = take_last_panic();
        }
    }
    if !had_fired_before_drop && fired().is_some() && fired_at.is_none() {
        fired_at = Some(case.ops.len());
    }
    arm(-1);
    let n = points_seen();
    let mut bad = take_bad();
    let dmg = alloc::flush_quarantine();
    alloc::take_quarantine_damage();
    alloc::set_quarantine(false);
    if dmg > 0 {
        bad.push(format!("{} freed block(s) were written to after being freed", dmg));
    }
    clear_cb_logs();
    (n, bad, fired_at)
}

pub fn run_e4<K: KeyLike>(case: &Case) -> CaseReport {
    let mut rep = CaseReport::default();
    let mut st = E4Stats::default();
    let kind = case.kind;
    let h = case.hash64();
    E4_CURRENT.with(|c| c.set((h, -1)));
    let (n, bad, _) = one_run::<K>(case, -1, &mut st);
    rep.steps = case.ops.len();
    if !bad.is_empty() {
        // hazards without any injected fault belong to C03/C04; the case is discarded here
        rep.aborted_by_panic = Some(("dry-run".into(), bad.join("; ")));
        return rep;
    }
    let mut nontrivial = false;
    let only: Option<i64> = std::env::var("VH_E4_ONLY").ok().and_then(|s| s.parse().ok());
    for i in 0..n {
        if let Some(o) = only {
            if o != i {
                continue;
            }
        }
        E4_CURRENT.with(|c| c.set((h, i)));
        let (_, bad, fired_at) = one_run::<K>(case, i, &mut st);
        st.armed_runs += 1;
        if let Some(pt) = fired() {
            st.fired += 1;
            *st.by_class.entry((kind, pt.name())).or_default() += 1;
            if let Some(at) = fired_at {
                if at < case.ops.len() && mutating(&case.ops[at]) {
                    st.fired_in_mutating_op += 1;
                    nontrivial = true;
                }
            }
        }
        if !bad.is_empty() {
            let at = fired_at.map(|x| if x < case.ops.len() { format!("during step {} {:?}", x, case.ops[x]) } else { "while dropping the cache".to_string() }).unwrap_or_else(|| "(not fired)".into());
            let pt = fired().map(|p| p.name()).unwrap_or("-");
            let class = if bad.iter().any(|b| b.contains("HASHMAP-LOST-ENTRIES")) {
                "std-hashmap-lost-entries"
            } else if bad.iter().any(|b| b.contains("double drop") || b.contains("drop of a non-live")) {
                "double-drop"
            } else if bad.iter().any(|b| b.contains("written to after")) {
                "write-after-free"
            } else {
                "dead-object"
            };
            rep.violation = Some(Violation {
                prop: "C18",
                step: fired_at.unwrap_or(0),
                msg: format!("panic injected into user-code call #{i} ({pt}) {at}: {}", bad.join("; ")),
                sig: if class == "std-hashmap-lost-entries" { "any/hasher-panic/std-hashmap-lost-entries".to_string() } else { format!("{}/{}/{}", kind.short(), pt, class) },
            });
            break;
        }
    }
    E4_CURRENT.with(|c| c.set((0, -1)));
    rep.nontrivial = nontrivial;
    {
        let mut g = E4_ACC.lock().unwrap_or_else(|e| e.into_inner());
        let a = g.get_or_insert_with(E4Stats::default);
        a.armed_runs += st.armed_runs;
        a.fired += st.fired;
        a.fired_in_mutating_op += st.fired_in_mutating_op;
        a.excluded_resize_after_panic += st.excluded_resize_after_panic;
        a.followup_panics += st.followup_panics;
        for (k, v) in st.by_class {
            *a.by_class.entry(k).or_default() += v;
        }
    }
    rep
}

/// replay of a single (history, armed index) pair
pub fn run_e4_single<K: KeyLike>(case: &Case, arm_at: i64) -> Vec<String> {
    let mut st = E4Stats::default();
    one_run::<K>(case, arm_at, &mut st).1
}
