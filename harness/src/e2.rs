//! E2 — small-scope closure: the generator made exhaustive. For tiny configurations the
//! reachable abstract states of the reference model (list orders and p; values abstracted) are
//! enumerated breadth-first, and from every newly discovered state EVERY state-changing
//! operation x key is executed. Each transition is judged exactly like an E1 case: the real
//! cache is driven along the stored access path and then through the transition, next to the
//! model, with the property's oracle on (so E2 cases are ordinary replayable `Case`s).

use crate::inst::TKey;
use crate::interp::*;
use crate::model::*;
use crate::ops::*;
use serde_json::{json, Value};
use std::collections::HashSet;

pub struct E2Config {
    pub kind: Kind,
    pub cfg: Cfg,
    pub keys: u16,
}

#[derive(Default, Debug, Clone)]
pub struct E2Result {
    pub states: u64,
    pub transitions: u64,
    pub depth: usize,
    pub closed: bool,
    pub violation: Option<(Case, Violation)>,
    pub per_config: Vec<Value>,
}

fn state_key(m: &Model) -> Vec<u16> {
    let mut k = Vec::with_capacity(16);
    for l in m.lists() {
        for e in l {
            k.push(e.0);
        }
        k.push(u16::MAX);
    }
    k.push(m.p() as u16);
    if let M::Lru { cap, .. } = &m.m {
        k.push(*cap as u16);
    }
    k
}

/// the state-changing operations explored from every state
pub fn ops_for(kind: Kind, cfg: &Cfg, keys: u16) -> Vec<Op> {
    let mut v = vec![];
    for k in 0..keys {
        v.push(Op::Put(k));
        v.push(Op::Get(k, false));
        v.push(Op::Remove(k, false));
    }
    v.push(Op::Purge);
    if kind.is_lru() {
        v.push(Op::GetLru);
        v.push(Op::RemoveLru);
        for n in 0..=(cfg.a as u16 + 1) {
            v.push(Op::Resize(n));
        }
        for k in 0..keys {
            v.push(Op::PeekOrPut(k));
        }
    }
    if kind == Kind::Seg {
        for k in 0..keys {
            v.push(Op::PutProtected(k));
        }
        v.push(Op::RemoveLruFrom(0));
        v.push(Op::RemoveLruFrom(1));
    }
    v
}

struct Node {
    model: Model,
    path: Vec<Op>,
}

/// close one configuration (or stop at `cap` states)
pub fn close(c: &E2Config, prop: Prop, cap: usize, workers: usize) -> E2Result {
    let ops = ops_for(c.kind, &c.cfg, c.keys);
    let mut seen: HashSet<Vec<u16>> = HashSet::new();
    let m0 = Model::new(c.kind, &c.cfg);
    seen.insert(state_key(&m0));
    let mut frontier = vec![Node { model: m0, path: vec![] }];
    let mut res = E2Result { closed: true, ..Default::default() };
    res.states = 1;
    let mut depth = 0usize;
    while !frontier.is_empty() {
        // expand the whole level in parallel; results are merged in frontier order, so the
        // exploration is deterministic
        let chunk = frontier.len().div_ceil(workers.max(1));
        let outs: Vec<(Vec<(Vec<u16>, Model, Vec<Op>)>, u64, Option<(usize, Case, Violation)>)> = std::thread::scope(|sc| {
            let hs: Vec<_> = frontier
                .chunks(chunk.max(1))
                .enumerate()
                .map(|(ci, nodes)| {
                    let ops = &ops;
                    sc.spawn(move || {
                        crate::inst::thread_init();
                        let mut succ = vec![];
                        let mut n = 0u64;
                        let mut vio: Option<(usize, Case, Violation)> = None;
                        for (ni, node) in nodes.iter().enumerate() {
                            for op in ops.iter() {
                                n += 1;
                                let mut path = node.path.clone();
                                path.push(op.clone());
                                let case = Case { kind: c.kind, cfg: c.cfg.clone(), keys: KeyMode::Tracked, alphabet: c.keys, ops: path.clone() };
                                if vio.is_none() {
                                    let rep = run_case::<TKey>(&case, prop, false);
                                    if let Some(v) = rep.violation {
                                        vio = Some((ci * chunk + ni, case, v));
                                    }
                                }
                                let mut m2 = node.model.clone();
                                let mut scratch = Stats::default();
                                let est = |_a: u16, _b: u16| false;
                                let _ = m2.apply(op, node.path.len(), &est, &mut scratch, 0);
                                succ.push((state_key(&m2), m2, path));
                            }
                        }
                        (succ, n, vio)
                    })
                })
                .collect();
            hs.into_iter().map(|h| h.join().expect("e2 worker died")).collect()
        });
        let mut next = vec![];
        for (succ, n, vio) in outs {
            res.transitions += n;
            if let Some((ix, case, v)) = vio {
                let better = match &res.violation {
                    None => true,
                    Some(_) => false,
                };
                let _ = ix;
                if better {
                    res.violation = Some((case, v));
                }
            }
            for (key, model, path) in succ {
                if seen.len() >= cap {
                    res.closed = false;
                    continue;
                }
                if seen.insert(key) {
                    next.push(Node { model, path });
                }
            }
        }
        if res.violation.is_some() {
            res.closed = false;
            break;
        }
        if !next.is_empty() {
            depth += 1;
        }
        frontier = next;
    }
    res.states = seen.len() as u64;
    res.depth = depth;
    res
}

fn wtl_cfg(a: usize, b: usize, c: usize) -> Cfg {
    let mut x = Cfg::simple(a);
    x.b = b;
    x.c = c;
    x.kh = KhSpec::Const;
    x.samples = 1000;
    x
}

/// the configurations closed by the quick / thorough tier for a kind
pub fn configs(kind: Kind, thorough: bool) -> Vec<E2Config> {
    let mut v = vec![];
    let mk = |kind: Kind, cfg: Cfg| {
        let keys = (cfg.total_cap(kind) + 2) as u16;
        E2Config { kind, cfg, keys }
    };
    match kind {
        Kind::Lru | Kind::LruCb | Kind::LruCbD => {
            for cap in 1..=(if thorough { 4 } else { 3 }) {
                v.push(mk(kind, Cfg::simple(cap)));
            }
        }
        Kind::Seg => {
            let mut sizes = vec![(1, 1), (1, 2), (2, 1), (2, 2)];
            if thorough {
                sizes.extend([(3, 2), (2, 3), (3, 3)]);
            }
            for (a, b) in sizes {
                let mut c = Cfg::simple(a);
                c.b = b;
                v.push(mk(kind, c));
            }
        }
        Kind::TwoQ => {
            let max = if thorough { 4 } else { 3 };
            for size in 1..=max {
                for rr in [0.0, 0.34, 0.5, 1.0] {
                    for gr in [0.34, 0.5, 1.0] {
                        if (size as f64 * gr).floor() < 1.0 {
                            continue;
                        }
                        let mut c = Cfg::simple(size);
                        c.rr = rr;
                        c.gr = gr;
                        v.push(mk(kind, c));
                    }
                }
            }
        }
        Kind::Arc => {
            for size in 1..=(if thorough { 4 } else { 3 }) {
                v.push(mk(kind, Cfg::simple(size)));
            }
        }
        Kind::Wtl => {
            let mut sizes = vec![(1, 1, 1), (1, 2, 1), (1, 1, 2), (2, 1, 1)];
            if thorough {
                sizes.extend([(1, 2, 2), (2, 2, 1), (2, 2, 2)]);
            }
            for (a, b, c) in sizes {
                v.push(mk(kind, wtl_cfg(a, b, c)));
            }
        }
    }
    v
}

pub fn run_e2(kinds: &[Kind], prop: Prop, thorough: bool, workers: usize) -> E2Result {
    let cap = if thorough { 500_000 } else { 60_000 };
    let mut total = E2Result { closed: true, ..Default::default() };
    for kind in kinds {
        for c in configs(*kind, thorough) {
            let r = close(&c, prop, cap, workers);
            total.states += r.states;
            total.transitions += r.transitions;
            total.depth = total.depth.max(r.depth);
            total.closed &= r.closed;
            total.per_config.push(json!({
                "kind": c.kind.short(), "a": c.cfg.a, "b": c.cfg.b, "c": c.cfg.c, "rr": c.cfg.rr, "gr": c.cfg.gr, "keys": c.keys,
                "states": r.states, "transitions": r.transitions, "depth": r.depth, "closed": r.closed,
            }));
            if r.violation.is_some() {
                total.violation = r.violation;
                return total;
            }
        }
    }
    total
}
