//! Parallel proptest driver shared by all history-based checks: 16 workers, each a pure
//! function of (VERIF_SEED, worker index); classification counters; known-findings matching;
//! structural minimisation; replay files; evidence.

use crate::interp::*;
use crate::model::*;
use crate::ops::*;
use proptest::strategy::BoxedStrategy;
use proptest::test_runner::{Config, RngSeed, TestCaseError, TestError, TestRunner};
use serde_json::{json, Value};
use std::cell::{Cell, RefCell};
use std::collections::{BTreeMap, HashSet};

#[derive(Clone, Debug, Default)]
pub struct Known {
    /// (property, signature, text) of open findings
    pub open: Vec<(String, String, String)>,
    /// replay file (relative to the verif dir) of the open finding with the same index
    pub replay: Vec<Option<String>>,
}

impl Known {
    pub fn load(path: &str) -> Known {
        let mut k = Known::default();
        if let Ok(s) = std::fs::read_to_string(path) {
            for line in s.lines() {
                let line = line.trim();
                if let Some(rest) = line.strip_prefix("open:") {
                    let mut prop = String::new();
                    let mut sig = String::new();
                    let mut text = vec![];
                    let mut replay = None;
                    for w in rest.split_whitespace() {
                        if let Some(p) = w.strip_prefix("property=") {
                            prop = p.to_string();
                        } else if let Some(s) = w.strip_prefix("sig=") {
                            sig = s.to_string();
                        } else if let Some(s) = w.strip_prefix("replay=") {
                            replay = Some(s.to_string());
                        } else {
                            text.push(w);
                        }
                    }
                    k.open.push((prop, sig, text.join(" ")));
                    k.replay.push(replay);
                }
            }
        }
        k
    }
    pub fn matches(&self, prop: &str, sig: &str) -> Option<usize> {
        self.open.iter().position(|(p, s, _)| p == prop && s == sig)
    }
}

#[derive(Default)]
pub struct Acc {
    pub evaluations: u64,
    pub nontrivial: HashSet<u64>,
    pub stats: Stats,
    pub ops_executed: u64,
    pub aborted_by_panic: u64,
    pub unbuildable: u64,
    pub known_hits: BTreeMap<usize, u64>,
    pub per_kind: BTreeMap<&'static str, (u64, u64)>,
    pub samples: Vec<Value>,
    pub panic_sites: BTreeMap<String, u64>,
    pub extra: BTreeMap<String, u64>,
}

impl Acc {
    pub fn merge(&mut self, o: Acc) {
        self.evaluations += o.evaluations;
        self.nontrivial.extend(o.nontrivial);
        self.stats.add(&o.stats);
        self.ops_executed += o.ops_executed;
        self.aborted_by_panic += o.aborted_by_panic;
        self.unbuildable += o.unbuildable;
        for (k, v) in o.known_hits {
            *self.known_hits.entry(k).or_default() += v;
        }
        for (k, v) in o.per_kind {
            let e = self.per_kind.entry(k).or_default();
            e.0 += v.0;
            e.1 += v.1;
        }
        for (k, v) in o.panic_sites {
            *self.panic_sites.entry(k).or_default() += v;
        }
        for (k, v) in o.extra {
            *self.extra.entry(k).or_default() += v;
        }
        if self.samples.len() < 3 {
            self.samples.extend(o.samples.into_iter().take(3));
            self.samples.truncate(3);
        }
    }
}

pub struct Found {
    pub worker: usize,
    pub case: Case,
    pub violation: Violation,
}

pub struct EngineResult {
    pub acc: Acc,
    pub found: Option<Found>,
}

pub type Exec = dyn Fn(&Case) -> CaseReport + Sync;

// ---- crash journal + watchdog -----------------------------------------------------------
// Before a case is executed its replay-format JSON is written to a per-worker journal file,
// so that a supervising parent can find the case that killed the process. A heartbeat per
// worker lets a watchdog turn a hang into exit 2 (inconclusive), never into a violation.

use std::sync::atomic::{AtomicBool, AtomicU64, Ordering};
pub static JOURNAL: std::sync::Mutex<Option<(String, String)>> = std::sync::Mutex::new(None);
pub static HEARTBEAT: [AtomicU64; 64] = [const { AtomicU64::new(0) }; 64];
pub static ACTIVE: [AtomicBool; 64] = [const { AtomicBool::new(false) }; 64];
/// 1 = inside the case executor, 2 = inside proptest (generation / shrinking), 3 = re-executing a failure
pub static PHASE: [AtomicU64; 64] = [const { AtomicU64::new(0) }; 64];

/// enable journaling into `dir` for the engine named `engine` (None = off)
pub fn set_journal(j: Option<(String, String)>) {
    if let Some((d, _)) = &j {
        let _ = std::fs::create_dir_all(d);
    }
    *JOURNAL.lock().unwrap_or_else(|e| e.into_inner()) = j;
}

pub const JOURNAL_ROTATE: u64 = 64;

pub fn journal_path(dir: &str, prop: &str, w: usize) -> String {
    format!("{}/{}-w{}.json", dir, prop, w)
}

/// start the watchdog thread: if an active worker makes no progress for `limit_s` seconds the
/// process reports an inconclusive run and exits with status 2
pub fn start_watchdog(prop: String, limit_s: u64) {
    std::thread::spawn(move || {
        let mut last = [0u64; 64];
        let mut since = [std::time::Instant::now(); 64];
        loop {
            std::thread::sleep(std::time::Duration::from_millis(1000));
            for w in 0..64 {
                if !ACTIVE[w].load(Ordering::Relaxed) {
                    since[w] = std::time::Instant::now();
                    continue;
                }
                let h = HEARTBEAT[w].load(Ordering::Relaxed);
                if h != last[w] {
                    last[w] = h;
                    since[w] = std::time::Instant::now();
                } else if since[w].elapsed().as_secs() >= limit_s {
                    let ph: Vec<u64> = (0..16).map(|i| PHASE[i].load(Ordering::Relaxed)).collect();
                    let hb: Vec<u64> = (0..16).map(|i| HEARTBEAT[i].load(Ordering::Relaxed)).collect();
                    println!("INCONCLUSIVE property={} worker {} made no progress for {}s (hang; the case being executed is in the worker's journal file; phases {:?}; heartbeats {:?})", prop, w, limit_s, ph, hb);
                    std::process::exit(2);
                }
            }
        }
    });
}

fn worker_seed(seed: u64, w: usize, salt: u64) -> [u8; 32] {
    // pure function of (VERIF_SEED, worker index, engine salt)
    let mut out = [0u8; 32];
    let mut x = seed ^ 0x9E3779B97F4A7C15u64.wrapping_mul(w as u64 + 1) ^ salt.rotate_left(17);
    for chunk in out.chunks_mut(8) {
        x ^= x >> 30;
        x = x.wrapping_mul(0xBF58476D1CE4E5B9);
        x ^= x >> 27;
        x = x.wrapping_mul(0x94D049BB133111EB);
        x ^= x >> 31;
        chunk.copy_from_slice(&x.to_le_bytes());
        x = x.wrapping_add(0x9E3779B97F4A7C15);
    }
    out
}

pub fn rng_seed(seed: u64, w: usize, salt: u64) -> RngSeed {
    // RngSeed::Fixed takes a u64; derive it from the 32-byte expansion
    let b = worker_seed(seed, w, salt);
    RngSeed::Fixed(u64::from_le_bytes(b[..8].try_into().unwrap()))
}

/// generic: run `cases` generated values of `strategy` per worker through `exec`
pub fn run_engine<T, F>(
    strategy_of: &(dyn Fn() -> BoxedStrategy<T> + Sync),
    exec: &F,
    to_case: &(dyn Fn(&T) -> Case + Sync),
    prop_id: &str,
    seed: u64,
    salt: u64,
    workers: usize,
    cases: u32,
    known: &Known,
) -> (Acc, Option<(usize, T, Violation)>)
where
    T: std::fmt::Debug + Clone + Send + serde::Serialize + 'static,
    F: Fn(&T) -> CaseReport + Sync,
{
    // once worker k has a failure, workers with a higher index stop searching (the reported
    // violation is the one of the lowest worker index, so the outcome stays deterministic)
    let stop_above = std::sync::atomic::AtomicUsize::new(usize::MAX);
    let stop_above = &stop_above;
    let results: Vec<(Acc, Option<(T, Violation)>)> = std::thread::scope(|sc| {
        let hs: Vec<_> = (0..workers)
            .map(|w| {
                sc.spawn(move || {
                    crate::inst::thread_init();
                    let acc = RefCell::new(Acc::default());
                    let failed = Cell::new(false);
                    let n = Cell::new(0u64);
                    let mut runner = TestRunner::new(Config {
                        cases,
                        failure_persistence: None,
                        rng_seed: rng_seed(seed, w, salt),
                        // proptest's own shrinking is only a first pass (the structural minimiser runs
                        // afterwards); flat-map regenerations are capped because proptest otherwise
                        // regenerates `cases` times per level without calling the test when it bails out
                        max_shrink_iters: 1500,
                        max_flat_map_regens: 64,
                        max_global_rejects: 1 << 20,
                        ..Config::default()
                    });
                    let strat = strategy_of();
                    let journal = JOURNAL.lock().unwrap_or_else(|e| e.into_inner()).clone();
                    let mut jfile = journal.as_ref().and_then(|(d, _)| std::fs::OpenOptions::new().create(true).write(true).truncate(true).open(journal_path(d, prop_id, w)).ok());
                    let jfile = RefCell::new(jfile.take());
                    let jcount = Cell::new(0u64);
                    if w < 64 {
                        ACTIVE[w].store(true, Ordering::Relaxed);
                    }
                    let res = runner.run(&strat, |t| {
                        if w < 64 {
                            HEARTBEAT[w].fetch_add(1, Ordering::Relaxed);
                        }
                        if w > stop_above.load(Ordering::Relaxed) && !failed.get() {
                            return Ok(());
                        }
                        if let (Some(f), Some((_, engine))) = (jfile.borrow_mut().as_mut(), journal.as_ref()) {
                            use std::io::Write;
                            // one line per case, appended; every JOURNAL_ROTATE cases the file becomes
                            // `<file>.prev`, so the last 64..128 cases of a worker survive a crash (the
                            // last line is the case in flight)
                            let mut body = serde_json::to_vec(&json!({"property": prop_id, "engine": engine, "case": &t, "observed": "journal entry: the process died while executing this case"})).unwrap_or_default();
                            body.push(b'\n');
                            jcount.set(jcount.get() + 1);
                            if jcount.get() % JOURNAL_ROTATE == 0 {
                                if let Some((d, _)) = journal.as_ref() {
                                    let jp = journal_path(d, prop_id, w);
                                    let _ = std::fs::rename(&jp, format!("{}.prev", jp));
                                    if let Ok(nf) = std::fs::OpenOptions::new().create(true).write(true).truncate(true).open(&jp) {
                                        *f = nf;
                                    }
                                }
                            }
                            let _ = f.write_all(&body);
                        }
                        if w < 64 {
                            PHASE[w].store(1, Ordering::Relaxed);
                        }
                        let rep = exec(&t);
                        if w < 64 {
                            PHASE[w].store(2, Ordering::Relaxed);
                        }
                        let searching = !failed.get();
                        if searching {
                            let mut a = acc.borrow_mut();
                            a.evaluations += 1;
                            n.set(n.get() + 1);
                            a.stats.add(&rep.stats);
                            a.ops_executed += rep.steps as u64;
                            if let Some((loc, _)) = &rep.aborted_by_panic {
                                a.aborted_by_panic += 1;
                                *a.panic_sites.entry(panic_class(loc)).or_default() += 1;
                            }
                            if rep.unbuildable.is_some() {
                                a.unbuildable += 1;
                            }
                            let case = to_case(&t);
                            if w == 0 && n.get() == 1 {
                                a.samples.push(serde_json::to_value(&t).unwrap_or(Value::Null));
                            }
                            let e = a.per_kind.entry(case.kind.short()).or_default();
                            e.0 += 1;
                            if rep.nontrivial && rep.violation.is_none() {
                                e.1 += 1;
                                let h = case.hash64();
                                let first = a.nontrivial.is_empty();
                                a.nontrivial.insert(h);
                                if first || (a.samples.len() < 3 && n.get() % 97 == 0) {
                                    a.samples.push(serde_json::to_value(&t).unwrap_or(Value::Null));
                                }
                            }
                        }
                        if let Some(v) = rep.violation {
                            if let Some(ix) = known.matches(prop_id, &v.sig) {
                                if searching {
                                    *acc.borrow_mut().known_hits.entry(ix).or_default() += 1;
                                }
                                return Ok(());
                            }
                            failed.set(true);
                            stop_above.fetch_min(w, Ordering::Relaxed);
                            return Err(TestCaseError::fail(v.msg));
                        }
                        Ok(())
                    });
                    let found = match res {
                        Ok(()) => None,
                        Err(TestError::Fail(why, t)) => {
                            // re-execute (library-side randomness such as RandomState can make a
                            // failure flaky: retry, and report the observed failure in any case)
                            if w < 64 {
                                PHASE[w].store(3, Ordering::Relaxed);
                            }
                            let mut v = None;
                            for _ in 0..8 {
                                v = exec(&t).violation;
                                if v.is_some() {
                                    break;
                                }
                            }
                            if v.is_none() {
                                acc.borrow_mut().extra.insert("failures_not_reproduced_on_reexecution".to_string(), 1);
                                v = Some(Violation { prop: "", step: 0, msg: format!("{} (observed during the search; did not reproduce on re-execution, library-side randomness involved)", why), sig: "unreproduced".into() });
                            }
                            v.map(|v| (t, v))
                        }
                        Err(TestError::Abort(r)) => {
                            acc.borrow_mut().extra.insert(format!("proptest_abort:{}", r), 1);
                            None
                        }
                    };
                    if w < 64 {
                        ACTIVE[w].store(false, Ordering::Relaxed);
                    }
                    if let Some((d, _)) = journal.as_ref() {
                        drop(jfile);
                        let _ = std::fs::remove_file(journal_path(d, prop_id, w));
                        let _ = std::fs::remove_file(format!("{}.prev", journal_path(d, prop_id, w)));
                    }
                    (acc.into_inner(), found)
                })
            })
            .collect();
        hs.into_iter().map(|h| h.join().expect("worker thread died")).collect()
    });
    let mut acc = Acc::default();
    let mut found = None;
    for (w, (a, f)) in results.into_iter().enumerate() {
        acc.merge(a);
        if found.is_none() {
            if let Some((t, v)) = f {
                found = Some((w, t, v));
            }
        }
    }
    (acc, found)
}

/// structural delta debugging of a `Case` under `fails`
pub fn minimize(case: &Case, fails: &dyn Fn(&Case) -> bool) -> Case {
    let mut cur = case.clone();
    let mut budget = 3000usize;
    // 1. drop chunks of ops, then single ops
    let mut chunk = (cur.ops.len() / 2).max(1);
    while chunk >= 1 && budget > 0 {
        let mut i = 0;
        let mut progress = false;
        while i < cur.ops.len() && budget > 0 {
            let mut c = cur.clone();
            let end = (i + chunk).min(c.ops.len());
            c.ops.drain(i..end);
            budget -= 1;
            if fails(&c) {
                cur = c;
                progress = true;
            } else {
                i += chunk;
            }
        }
        if chunk == 1 && !progress {
            break;
        }
        if !progress {
            chunk /= 2;
        }
    }
    // 2. lower keys
    for i in 0..cur.ops.len() {
        if budget == 0 {
            break;
        }
        if let Some(k) = cur.ops[i].key() {
            for nk in 0..k {
                let mut c = cur.clone();
                set_key(&mut c.ops[i], nk);
                budget = budget.saturating_sub(1);
                if fails(&c) {
                    cur = c;
                    break;
                }
            }
        }
    }
    // 3. shrink configuration
    loop {
        let mut progress = false;
        for f in 0..3 {
            let mut c = cur.clone();
            let field = match f {
                0 => &mut c.cfg.a,
                1 => &mut c.cfg.b,
                _ => &mut c.cfg.c,
            };
            if *field > 1 {
                *field -= 1;
                budget = budget.saturating_sub(1);
                if fails(&c) {
                    cur = c;
                    progress = true;
                }
            }
        }
        if !progress || budget == 0 {
            break;
        }
    }
    cur
}

fn set_key(op: &mut Op, nk: u16) {
    match op {
        Op::Put(k)
        | Op::Get(k, _)
        | Op::GetMut(k, _, _)
        | Op::Peek(k, _)
        | Op::PeekMut(k, _, _)
        | Op::Contains(k, _)
        | Op::Remove(k, _)
        | Op::PeekOrPut(k)
        | Op::PeekMutOrPut(k, _)
        | Op::ContainsOrPut(k)
        | Op::PutProtected(k) => *k = nk,
        _ => {}
    }
}

pub fn stats_json(s: &Stats) -> Value {
    let mut m = serde_json::Map::new();
    for (i, n) in EV_NAMES.iter().enumerate() {
        if s.ev[i] > 0 {
            m.insert(n.to_string(), json!(s.ev[i]));
        }
    }
    Value::Object(m)
}

pub fn write_replay(dir: &str, prop_id: &str, engine: &str, payload: Value, v: &Violation) -> String {
    let d = format!("{}/{}", dir, prop_id);
    let _ = std::fs::create_dir_all(&d);
    let body = json!({
        "property": prop_id,
        "engine": engine,
        "case": payload,
        "step": v.step,
        "signature": v.sig,
        "observed": v.msg,
    });
    let text = serde_json::to_string_pretty(&body).unwrap();
    let path = format!("{}/{:016x}.json", d, fnv64(text.as_bytes()));
    let _ = std::fs::write(&path, text);
    path
}
