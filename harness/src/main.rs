//! vh — verification harness CLI
//!   vh check <ID> [--tier quick|thorough] [--seed N] [--verif-dir DIR] [--scale F] [--no-evidence]
//!   vh replay <file>
use vh::checks::*;
use vh::runner::Known;

fn arg(args: &[String], name: &str) -> Option<String> {
    args.iter().position(|a| a == name).and_then(|i| args.get(i + 1).cloned())
}

fn main() {
    let args: Vec<String> = std::env::args().collect();
    vh::inst::install_panic_hook();
    vh::inst::thread_init();
    let verif_dir = arg(&args, "--verif-dir").or_else(|| std::env::var("VERIF_DIR").ok()).unwrap_or_else(|| "/verif".into());
    match args.get(1).map(|s| s.as_str()) {
        Some("check") => {
            let id = args.get(2).cloned().unwrap_or_default();
            let tier = match arg(&args, "--tier").or_else(|| std::env::var("VERIF_TIER").ok()).as_deref() {
                Some("thorough") => Tier::Thorough,
                _ => Tier::Quick,
            };
            let seed: u64 = arg(&args, "--seed").or_else(|| std::env::var("VERIF_SEED").ok()).and_then(|s| s.parse().ok()).unwrap_or(1);
            let scale: f64 = arg(&args, "--scale").and_then(|s| s.parse().ok()).unwrap_or(1.0);
            let workers: usize = arg(&args, "--workers").and_then(|s| s.parse().ok()).unwrap_or(16);
            let known = Known::load(&format!("{}/known_findings.txt", verif_dir));
            let ctx = Ctx { id: id.clone(), tier, seed, verif_dir: verif_dir.clone(), known, workers, scale };
            let t0 = std::time::Instant::now();
            let out = vh::registry::run_check(&ctx);
            let wall = t0.elapsed().as_secs_f64();
            if !args.iter().any(|a| a == "--no-evidence") {
                vh::registry::write_evidence(&ctx, &out, wall);
            }
            if args.iter().any(|a| a == "--emit-json") {
                let vs: Vec<(String, String)> = out.violations.clone();
                println!("SUBRESULT {}", serde_json::json!({"coverage": out.coverage, "violations": vs}));
            }
            for l in &out.known_lines {
                println!("{}", l);
            }
            if let Some(why) = &out.inconclusive {
                println!("INCONCLUSIVE property={} {}", id, why);
                std::process::exit(2);
            }
            if !out.violations.is_empty() {
                for (path, msg) in &out.violations {
                    println!("VIOLATION property={} replay={}", id, path);
                    println!("  {}", msg);
                }
                std::process::exit(1);
            }
            println!(
                "OK property={} tier={:?} seed={} evaluations={} distinct_nontrivial={} wall_s={:.1}",
                id,
                tier,
                seed,
                out.coverage.get("evaluations").and_then(|v| v.as_u64()).unwrap_or(0),
                out.coverage.get("distinct_nontrivial").and_then(|v| v.as_u64()).unwrap_or(0),
                wall
            );
        }
        Some("replay") => {
            let path = args.get(2).cloned().unwrap_or_default();
            match replay_file(&path) {
                Ok(None) => println!("replay {}: property holds on this tree", path),
                Ok(Some(v)) => {
                    println!("VIOLATION property={} replay={}", v.prop, path);
                    println!("  {}", v.msg);
                    std::process::exit(1);
                }
                Err(e) => {
                    println!("replay error: {}", e);
                    std::process::exit(2);
                }
            }
        }
        _ => {
            eprintln!("usage: vh check <ID> [--tier quick|thorough] [--seed N] | vh replay <file>");
            std::process::exit(2);
        }
    }
}
