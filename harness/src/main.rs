//! vh — verification harness CLI
//!   vh check <ID> [--tier quick|thorough] [--seed N] [--verif-dir DIR] [--scale F] [--no-evidence]
//!   vh replay <file>
//!
//! `check` runs as a supervised child: the parent re-executes itself with VH_CHILD=1 and, if
//! the child dies abnormally (signal, abort, sanitizer report), finds the journaled case that
//! kills a fresh process, minimises it by re-running children and reports it as the violation.
use std::process::Command;
use vh::checks::*;
use vh::runner::Known;

fn arg(args: &[String], name: &str) -> Option<String> {
    args.iter().position(|a| a == name).and_then(|i| args.get(i + 1).cloned())
}

fn abnormal(code: Option<i32>) -> bool {
    !matches!(code, Some(0) | Some(1) | Some(2))
}

/// outcome of `vh replay <file>` in a fresh process
#[derive(Debug, Clone, PartialEq)]
enum Rp {
    Crash,
    /// the oracle reported a violation in-process: (index of the case in a `cases` file, message)
    Violation(usize, String),
    Clean,
    Hang,
}

fn replay_outcome(exe: &std::path::Path, file: &str, verif_dir: &str) -> Rp {
    let out_path = format!("{}.out", file);
    let outf = match std::fs::File::create(&out_path) {
        Ok(f) => f,
        Err(_) => return Rp::Clean,
    };
    let child = Command::new(exe).args(["replay", file, "--verif-dir", verif_dir]).env("VH_CHILD", "1").stdout(outf).stderr(std::process::Stdio::null()).spawn();
    let mut child = match child {
        Ok(c) => c,
        Err(_) => return Rp::Clean,
    };
    let t0 = std::time::Instant::now();
    let st = loop {
        match child.try_wait() {
            Ok(Some(st)) => break st,
            Ok(None) => {
                if t0.elapsed().as_secs() > 120 {
                    let _ = child.kill();
                    let _ = child.wait();
                    let _ = std::fs::remove_file(&out_path);
                    return Rp::Hang;
                }
                std::thread::sleep(std::time::Duration::from_millis(5));
            }
            Err(_) => return Rp::Clean,
        }
    };
    let text = std::fs::read_to_string(&out_path).unwrap_or_default();
    let _ = std::fs::remove_file(&out_path);
    if abnormal(st.code()) {
        return Rp::Crash;
    }
    if st.code() == Some(1) {
        let ix = text.lines().find_map(|l| l.strip_prefix("TAIL-INDEX ")).and_then(|x| x.trim().parse().ok()).unwrap_or(0);
        let msg = text.lines().skip_while(|l| !l.starts_with("VIOLATION")).nth(1).unwrap_or("").trim().to_string();
        return Rp::Violation(ix, msg);
    }
    Rp::Clean
}

/// does `vh replay <file>` die abnormally (true), finish (false) ?  None = it hung
fn replay_crashes(exe: &std::path::Path, file: &str, verif_dir: &str) -> Option<bool> {
    match replay_outcome(exe, file, verif_dir) {
        Rp::Crash => Some(true),
        Rp::Hang => None,
        _ => Some(false),
    }
}

fn ops_path(v: &serde_json::Value) -> Option<Vec<&'static str>> {
    if v["case"]["ops"].is_array() {
        Some(vec!["case", "ops"])
    } else if v["case"]["case"]["ops"].is_array() {
        Some(vec!["case", "case", "ops"])
    } else {
        None
    }
}

fn get_mut<'a>(v: &'a mut serde_json::Value, path: &[&str]) -> &'a mut serde_json::Value {
    let mut cur = v;
    for p in path {
        cur = &mut cur[*p];
    }
    cur
}

/// delta-debug the `ops` array of a crashing journal entry with child re-runs
fn minimize_crash(exe: &std::path::Path, mut v: serde_json::Value, scratch: &str, verif_dir: &str) -> serde_json::Value {
    let path = match ops_path(&v) {
        Some(p) => p,
        None => return v,
    };
    let mut budget = 200usize;
    let crashes = |cand: &serde_json::Value| -> bool {
        let _ = std::fs::write(scratch, serde_json::to_vec(cand).unwrap_or_default());
        replay_crashes(exe, scratch, verif_dir) == Some(true)
    };
    let mut chunk = (get_mut(&mut v, &path).as_array().map(|a| a.len()).unwrap_or(0) / 2).max(1);
    loop {
        let mut i = 0;
        let mut progress = false;
        loop {
            let n = get_mut(&mut v, &path).as_array().map(|a| a.len()).unwrap_or(0);
            if i >= n || budget == 0 {
                break;
            }
            let mut cand = v.clone();
            {
                let arr = get_mut(&mut cand, &path).as_array_mut().unwrap();
                let end = (i + chunk).min(arr.len());
                arr.drain(i..end);
            }
            budget -= 1;
            if crashes(&cand) {
                v = cand;
                progress = true;
            } else {
                i += chunk;
            }
        }
        if budget == 0 || (chunk == 1 && !progress) {
            break;
        }
        if !progress {
            chunk = (chunk / 2).max(1);
        }
    }
    let _ = std::fs::remove_file(scratch);
    v
}

fn supervise(args: &[String], id: &str, verif_dir: &str) -> i32 {
    let exe = std::env::current_exe().expect("current_exe");
    let jdir = format!("{}/work/journal", verif_dir);
    let _ = std::fs::create_dir_all(&jdir);
    // stale journals of this property
    if let Ok(rd) = std::fs::read_dir(&jdir) {
        for e in rd.flatten() {
            if e.file_name().to_string_lossy().starts_with(&format!("{}-", id)) {
                let _ = std::fs::remove_file(e.path());
            }
        }
    }
    let status = Command::new(&exe).args(&args[1..]).env("VH_CHILD", "1").status();
    let code = match status {
        Ok(s) => s.code(),
        Err(e) => {
            println!("INCONCLUSIVE property={} cannot start the checking process: {}", id, e);
            return 2;
        }
    };
    if !abnormal(code) {
        return code.unwrap_or(2);
    }
    // the child died: find the journaled case that kills a fresh process
    let mut files: Vec<String> = std::fs::read_dir(&jdir)
        .map(|rd| rd.flatten().map(|e| e.path().to_string_lossy().to_string()).filter(|p| p.contains(&format!("/{}-w", id)) && p.ends_with(".json")).collect())
        .unwrap_or_default();
    files.sort();
    let scratch = format!("{}/{}-scratch.json", jdir, id);
    let lines_of = |f: &str| -> Vec<serde_json::Value> {
        std::fs::read_to_string(f).unwrap_or_default().lines().filter_map(|l| serde_json::from_str(l).ok()).collect()
    };
    let report = |mut v: serde_json::Value, what: &str| -> i32 {
        v["observed"] = serde_json::json!(format!("the checking process died abnormally (exit status {:?}: signal, abort or failed unsafe-precondition check) while executing {}; `vh replay` of this file dies the same way", code, what));
        v["signature"] = serde_json::json!("process-crash");
        let body = serde_json::to_string_pretty(&v).unwrap_or_default();
        let d = format!("{}/replays/{}", verif_dir, id);
        let _ = std::fs::create_dir_all(&d);
        let path = format!("{}/crash-{:016x}.json", d, vh::ops::fnv64(body.as_bytes()));
        let _ = std::fs::write(&path, body);
        println!("VIOLATION property={} replay={}", id, path);
        println!("  the checking process died abnormally (exit status {:?}) while executing {} in the replay file (memory corruption, a failed unsafe-precondition check or an aborting allocation failure inside the library)", code, what);
        1
    };
    // an in-process violation found while attributing the crash (a worker was shrinking or about
    // to report when another worker killed the process): minimise and report that case
    let report_case = |case: serde_json::Value, msg: &str| -> i32 {
        let d = format!("{}/replays/{}", verif_dir, id);
        let _ = std::fs::create_dir_all(&d);
        let mut v = case;
        v["observed"] = serde_json::json!(msg);
        let body = serde_json::to_string_pretty(&v).unwrap_or_default();
        let path = format!("{}/{:016x}.json", d, vh::ops::fnv64(body.as_bytes()));
        let _ = std::fs::write(&path, body);
        let _ = Command::new(&exe).args(["minimize", &path, "--verif-dir", verif_dir]).env("VH_CHILD", "1").stdout(std::process::Stdio::null()).stderr(std::process::Stdio::null()).status();
        let msg2 = std::fs::read_to_string(&path).ok().and_then(|t| serde_json::from_str::<serde_json::Value>(&t).ok()).and_then(|v| v["observed"].as_str().map(|s| s.to_string())).unwrap_or_else(|| msg.to_string());
        println!("VIOLATION property={} replay={}", id, path);
        println!("  {} (the checking process died abnormally, exit status {:?}, during the search; this journaled case shows the violation in a fresh process)", msg2, code);
        1
    };
    // 1. the case in flight of some worker, alone
    for f in files.iter().filter(|_| std::env::var_os("VH_SKIP_SINGLE").is_none()) {
        let last = match lines_of(f).pop() {
            Some(v) => v,
            None => continue,
        };
        let _ = std::fs::write(&scratch, serde_json::to_vec(&last).unwrap_or_default());
        for _ in 0..3 {
            match replay_outcome(&exe, &scratch, verif_dir) {
                Rp::Crash => {
                    let v = minimize_crash(&exe, last, &scratch, verif_dir);
                    return report(v, "the case");
                }
                Rp::Violation(_, msg) => return report_case(last, &msg),
                _ => {}
            }
        }
    }
    // 2. damage done by an earlier case of the same worker: replay the journaled tail (the last
    //    64..128 cases of that worker, in order, in one fresh process), then drop leading cases
    for f in &files {
        let mut tail = lines_of(&format!("{}.prev", f));
        tail.extend(lines_of(f));
        if tail.len() < 2 {
            continue;
        }
        let (prop, engine) = (tail[0]["property"].clone(), tail[0]["engine"].clone());
        let mk = |cs: &[serde_json::Value]| serde_json::json!({"property": prop, "engine": engine, "cases": cs.iter().map(|c| c["case"].clone()).collect::<Vec<_>>()});
        let outcome = |cs: &[serde_json::Value]| -> Rp {
            let _ = std::fs::write(&scratch, serde_json::to_vec(&mk(cs)).unwrap_or_default());
            replay_outcome(&exe, &scratch, verif_dir)
        };
        let crashes = |cs: &[serde_json::Value]| outcome(cs) == Rp::Crash;
        match outcome(&tail) {
            Rp::Crash => {}
            Rp::Violation(ix, msg) if ix < tail.len() => {
                // does that case fail on its own?
                let one = tail[ix].clone();
                let _ = std::fs::write(&scratch, serde_json::to_vec(&one).unwrap_or_default());
                if let Rp::Violation(_, m1) = replay_outcome(&exe, &scratch, verif_dir) {
                    let _ = std::fs::remove_file(&scratch);
                    return report_case(one, &m1);
                }
                let _ = msg;
                continue;
            }
            _ => continue,
        }
        // shortest crashing suffix by halving, then single leading cases
        let mut start = 0usize;
        let mut step = tail.len() / 2;
        while step >= 1 {
            while start + step < tail.len() && crashes(&tail[start + step..]) {
                start += step;
            }
            step /= 2;
        }
        let mut keep: Vec<serde_json::Value> = tail[start..].to_vec();
        // drop inner cases one at a time (bounded)
        let mut i = 1usize;
        let mut budget = 60;
        while i + 1 < keep.len() && budget > 0 {
            let mut cand = keep.clone();
            cand.remove(i);
            budget -= 1;
            if crashes(&cand) {
                keep = cand;
            } else {
                i += 1;
            }
        }
        let _ = std::fs::remove_file(&scratch);
        if keep.len() == 1 {
            return report(keep.pop().unwrap(), "the case");
        }
        return report(mk(&keep), &format!("the {} consecutive cases (one worker's journaled tail)", keep.len()));
    }
    let _ = std::fs::remove_file(&scratch);
    println!("INCONCLUSIVE property={} the checking process died abnormally (exit status {:?}) and none of the {} journaled cases reproduces the crash in a fresh process", id, code, files.len());
    2
}

fn main() {
    let args: Vec<String> = std::env::args().collect();
    let verif_dir = arg(&args, "--verif-dir").or_else(|| std::env::var("VERIF_DIR").ok()).unwrap_or_else(|| "/verif".into());
    if args.get(1).map(|s| s.as_str()) == Some("check") && std::env::var("VH_CHILD").is_err() && !args.iter().any(|a| a == "--emit-json") {
        let id = args.get(2).cloned().unwrap_or_default();
        std::process::exit(supervise(&args, &id, &verif_dir));
    }
    vh::inst::install_panic_hook();
    vh::inst::thread_init();
    match args.get(1).map(|s| s.as_str()) {
        Some("check") => {
            let id = args.get(2).cloned().unwrap_or_default();
            let tier = match arg(&args, "--tier").or_else(|| std::env::var("VERIF_TIER").ok()).as_deref() {
                Some("thorough") => Tier::Thorough,
                _ => Tier::Quick,
            };
            let seed: u64 = arg(&args, "--seed").or_else(|| std::env::var("VERIF_SEED").ok()).and_then(|s| s.parse().ok()).unwrap_or(1);
            let scale: f64 = arg(&args, "--scale").and_then(|s| s.parse().ok()).unwrap_or(1.0);
            let workers: usize = arg(&args, "--workers").and_then(|s| s.parse().ok()).unwrap_or(16);
            let known = Known::load(&format!("{}/known_findings.txt", verif_dir));
            let ctx = Ctx { id: id.clone(), tier, seed, verif_dir: verif_dir.clone(), known, workers, scale };
            vh::runner::start_watchdog(id.clone(), if tier == Tier::Quick { 120 } else { 600 });
            let t0 = std::time::Instant::now();
            let out = vh::registry::run_check(&ctx);
            let wall = t0.elapsed().as_secs_f64();
            if !args.iter().any(|a| a == "--no-evidence") {
                vh::registry::write_evidence(&ctx, &out, wall);
            }
            if args.iter().any(|a| a == "--emit-json") {
                let vs: Vec<(String, String)> = out.violations.clone();
                println!("SUBRESULT {}", serde_json::json!({"coverage": out.coverage, "violations": vs}));
            }
            for l in &out.known_lines {
                println!("{}", l);
            }
            if !out.violations.is_empty() {
                for (path, msg) in &out.violations {
                    println!("VIOLATION property={} replay={}", id, path);
                    println!("  {}", msg);
                }
                std::process::exit(1);
            }
            if let Some(why) = &out.inconclusive {
                println!("INCONCLUSIVE property={} {}", id, why);
                std::process::exit(2);
            }
            println!(
                "OK property={} tier={:?} seed={} evaluations={} distinct_nontrivial={} wall_s={:.1}",
                id,
                tier,
                seed,
                out.coverage.get("evaluations").and_then(|v| v.as_u64()).unwrap_or(0),
                out.coverage.get("distinct_nontrivial").and_then(|v| v.as_u64()).unwrap_or(0),
                wall
            );
        }
        Some("minimize") => {
            // vh minimize <replay.json>: structural minimisation of an e1/e2/e3 case file in place
            let path = args.get(2).cloned().unwrap_or_default();
            let text = std::fs::read_to_string(&path).unwrap_or_default();
            let mut v: serde_json::Value = serde_json::from_str(&text).unwrap_or(serde_json::Value::Null);
            let prop = v["property"].as_str().and_then(vh::registry::prop_of);
            let case: Option<vh::ops::Case> = serde_json::from_value(v["case"].clone()).ok();
            match (prop, case) {
                (Some(p), Some(c)) => {
                    let e4 = v["engine"].as_str() == Some("e4");
                    let run = |c: &vh::ops::Case| if e4 { exec_e4(c) } else { exec_case(c, p) };
                    let fails = |c: &vh::ops::Case| run(c).violation.is_some();
                    if !fails(&c) {
                        println!("minimize: the case does not violate {} on this tree", p.id());
                        std::process::exit(0);
                    }
                    let min = vh::runner::minimize(&c, &fails);
                    let viol = run(&min).violation;
                    v["case"] = serde_json::to_value(&min).unwrap();
                    if let Some(x) = viol {
                        v["observed"] = serde_json::json!(x.msg);
                        v["signature"] = serde_json::json!(x.sig);
                        v["step"] = serde_json::json!(x.step);
                        println!("  {}", x.msg);
                    }
                    let _ = std::fs::write(&path, serde_json::to_string_pretty(&v).unwrap());
                    std::process::exit(1);
                }
                _ => {
                    println!("minimize: cannot read {}", path);
                    std::process::exit(2);
                }
            }
        }
        Some("replay") => {
            let path = args.get(2).cloned().unwrap_or_default();
            match replay_file(&path) {
                Ok(None) => println!("replay {}: property holds on this tree", path),
                Ok(Some(v)) => {
                    println!("VIOLATION property={} replay={}", v.prop, path);
                    println!("  {}", v.msg);
                    std::process::exit(1);
                }
                Err(e) => {
                    println!("replay error: {}", e);
                    std::process::exit(2);
                }
            }
        }
        _ => {
            eprintln!("usage: vh check <ID> [--tier quick|thorough] [--seed N] | vh replay <file>");
            std::process::exit(2);
        }
    }
}
