//! vh — verification harness CLI
//!   vh check <ID> [--tier quick|thorough] [--seed N] [--verif-dir DIR] [--scale F] [--no-evidence]
//!   vh replay <file>
//!
//! `check` runs as a supervised child: the parent re-executes itself with VH_CHILD=1 and, if
//! the child dies abnormally (signal, abort, sanitizer report), finds the journaled case that
//! kills a fresh process, minimises it by re-running children and reports it as the violation.
use std::process::Command;
use vh::checks::*;
use vh::runner::Known;

fn arg(args: &[String], name: &str) -> Option<String> {
    args.iter().position(|a| a == name).and_then(|i| args.get(i + 1).cloned())
}

fn abnormal(code: Option<i32>) -> bool {
    !matches!(code, Some(0) | Some(1) | Some(2))
}

/// does `vh replay <file>` die abnormally (true), finish (false) ?  None = it hung
fn replay_crashes(exe: &std::path::Path, file: &str, verif_dir: &str) -> Option<bool> {
    let mut child = Command::new(exe)
        .args(["replay", file, "--verif-dir", verif_dir])
        .env("VH_CHILD", "1")
        .stdout(std::process::Stdio::null())
        .stderr(std::process::Stdio::null())
        .spawn()
        .ok()?;
    let t0 = std::time::Instant::now();
    loop {
        match child.try_wait() {
            Ok(Some(st)) => return Some(abnormal(st.code())),
            Ok(None) => {
                if t0.elapsed().as_secs() > 120 {
                    let _ = child.kill();
                    let _ = child.wait();
                    return None;
                }
                std::thread::sleep(std::time::Duration::from_millis(5));
            }
            Err(_) => return Some(false),
        }
    }
}

fn ops_path(v: &serde_json::Value) -> Option<Vec<&'static str>> {
    if v["case"]["ops"].is_array() {
        Some(vec!["case", "ops"])
    } else if v["case"]["case"]["ops"].is_array() {
        Some(vec!["case", "case", "ops"])
    } else {
        None
    }
}

fn get_mut<'a>(v: &'a mut serde_json::Value, path: &[&str]) -> &'a mut serde_json::Value {
    let mut cur = v;
    for p in path {
        cur = &mut cur[*p];
    }
    cur
}

/// delta-debug the `ops` array of a crashing journal entry with child re-runs
fn minimize_crash(exe: &std::path::Path, mut v: serde_json::Value, scratch: &str, verif_dir: &str) -> serde_json::Value {
    let path = match ops_path(&v) {
        Some(p) => p,
        None => return v,
    };
    let mut budget = 200usize;
    let crashes = |cand: &serde_json::Value| -> bool {
        let _ = std::fs::write(scratch, serde_json::to_vec(cand).unwrap_or_default());
        replay_crashes(exe, scratch, verif_dir) == Some(true)
    };
    let mut chunk = (get_mut(&mut v, &path).as_array().map(|a| a.len()).unwrap_or(0) / 2).max(1);
    loop {
        let mut i = 0;
        let mut progress = false;
        loop {
            let n = get_mut(&mut v, &path).as_array().map(|a| a.len()).unwrap_or(0);
            if i >= n || budget == 0 {
                break;
            }
            let mut cand = v.clone();
            {
                let arr = get_mut(&mut cand, &path).as_array_mut().unwrap();
                let end = (i + chunk).min(arr.len());
                arr.drain(i..end);
            }
            budget -= 1;
            if crashes(&cand) {
                v = cand;
                progress = true;
            } else {
                i += chunk;
            }
        }
        if budget == 0 || (chunk == 1 && !progress) {
            break;
        }
        if !progress {
            chunk = (chunk / 2).max(1);
        }
    }
    let _ = std::fs::remove_file(scratch);
    v
}

fn supervise(args: &[String], id: &str, verif_dir: &str) -> i32 {
    let exe = std::env::current_exe().expect("current_exe");
    let jdir = format!("{}/work/journal", verif_dir);
    let _ = std::fs::create_dir_all(&jdir);
    // stale journals of this property
    if let Ok(rd) = std::fs::read_dir(&jdir) {
        for e in rd.flatten() {
            if e.file_name().to_string_lossy().starts_with(&format!("{}-", id)) {
                let _ = std::fs::remove_file(e.path());
            }
        }
    }
    let status = Command::new(&exe).args(&args[1..]).env("VH_CHILD", "1").status();
    let code = match status {
        Ok(s) => s.code(),
        Err(e) => {
            println!("INCONCLUSIVE property={} cannot start the checking process: {}", id, e);
            return 2;
        }
    };
    if !abnormal(code) {
        return code.unwrap_or(2);
    }
    // the child died: find the journaled case that kills a fresh process
    let mut files: Vec<String> = std::fs::read_dir(&jdir)
        .map(|rd| rd.flatten().map(|e| e.path().to_string_lossy().to_string()).filter(|p| p.contains(&format!("/{}-w", id))).collect())
        .unwrap_or_default();
    files.sort();
    for f in &files {
        let mut hit = false;
        for _ in 0..3 {
            if replay_crashes(&exe, f, verif_dir) == Some(true) {
                hit = true;
                break;
            }
        }
        if hit {
            let text = std::fs::read_to_string(f).unwrap_or_default();
            let v: serde_json::Value = serde_json::from_str(&text).unwrap_or(serde_json::Value::Null);
            let mut v = minimize_crash(&exe, v, &format!("{}/{}-scratch.json", jdir, id), verif_dir);
            v["observed"] = serde_json::json!(format!("the checking process died abnormally (exit status {:?}: signal, abort or failed unsafe-precondition check) while executing this case; `vh replay` of this file dies the same way", code));
            v["signature"] = serde_json::json!("process-crash");
            let body = serde_json::to_string_pretty(&v).unwrap_or_default();
            let d = format!("{}/replays/{}", verif_dir, id);
            let _ = std::fs::create_dir_all(&d);
            let path = format!("{}/crash-{:016x}.json", d, vh::ops::fnv64(body.as_bytes()));
            let _ = std::fs::write(&path, body);
            println!("VIOLATION property={} replay={}", id, path);
            println!("  the checking process died abnormally (exit status {:?}) while executing the case in the replay file (memory corruption or a failed unsafe-precondition check inside the library)", code);
            return 1;
        }
    }
    println!("INCONCLUSIVE property={} the checking process died abnormally (exit status {:?}) and none of the {} journaled cases reproduces the crash in a fresh process", id, code, files.len());
    2
}

fn main() {
    let args: Vec<String> = std::env::args().collect();
    let verif_dir = arg(&args, "--verif-dir").or_else(|| std::env::var("VERIF_DIR").ok()).unwrap_or_else(|| "/verif".into());
    if args.get(1).map(|s| s.as_str()) == Some("check") && std::env::var("VH_CHILD").is_err() && !args.iter().any(|a| a == "--emit-json") {
        let id = args.get(2).cloned().unwrap_or_default();
        std::process::exit(supervise(&args, &id, &verif_dir));
    }
    vh::inst::install_panic_hook();
    vh::inst::thread_init();
    match args.get(1).map(|s| s.as_str()) {
        Some("check") => {
            let id = args.get(2).cloned().unwrap_or_default();
            let tier = match arg(&args, "--tier").or_else(|| std::env::var("VERIF_TIER").ok()).as_deref() {
                Some("thorough") => Tier::Thorough,
                _ => Tier::Quick,
            };
            let seed: u64 = arg(&args, "--seed").or_else(|| std::env::var("VERIF_SEED").ok()).and_then(|s| s.parse().ok()).unwrap_or(1);
            let scale: f64 = arg(&args, "--scale").and_then(|s| s.parse().ok()).unwrap_or(1.0);
            let workers: usize = arg(&args, "--workers").and_then(|s| s.parse().ok()).unwrap_or(16);
            let known = Known::load(&format!("{}/known_findings.txt", verif_dir));
            let ctx = Ctx { id: id.clone(), tier, seed, verif_dir: verif_dir.clone(), known, workers, scale };
            vh::runner::start_watchdog(id.clone(), if tier == Tier::Quick { 120 } else { 600 });
            let t0 = std::time::Instant::now();
            let out = vh::registry::run_check(&ctx);
            let wall = t0.elapsed().as_secs_f64();
            if !args.iter().any(|a| a == "--no-evidence") {
                vh::registry::write_evidence(&ctx, &out, wall);
            }
            if args.iter().any(|a| a == "--emit-json") {
                let vs: Vec<(String, String)> = out.violations.clone();
                println!("SUBRESULT {}", serde_json::json!({"coverage": out.coverage, "violations": vs}));
            }
            for l in &out.known_lines {
                println!("{}", l);
            }
            if !out.violations.is_empty() {
                for (path, msg) in &out.violations {
                    println!("VIOLATION property={} replay={}", id, path);
                    println!("  {}", msg);
                }
                std::process::exit(1);
            }
            if let Some(why) = &out.inconclusive {
                println!("INCONCLUSIVE property={} {}", id, why);
                std::process::exit(2);
            }
            println!(
                "OK property={} tier={:?} seed={} evaluations={} distinct_nontrivial={} wall_s={:.1}",
                id,
                tier,
                seed,
                out.coverage.get("evaluations").and_then(|v| v.as_u64()).unwrap_or(0),
                out.coverage.get("distinct_nontrivial").and_then(|v| v.as_u64()).unwrap_or(0),
                wall
            );
        }
        Some("minimize") => {
            // vh minimize <replay.json>: structural minimisation of an e1/e2/e3 case file in place
            let path = args.get(2).cloned().unwrap_or_default();
            let text = std::fs::read_to_string(&path).unwrap_or_default();
            let mut v: serde_json::Value = serde_json::from_str(&text).unwrap_or(serde_json::Value::Null);
            let prop = v["property"].as_str().and_then(vh::registry::prop_of);
            let case: Option<vh::ops::Case> = serde_json::from_value(v["case"].clone()).ok();
            match (prop, case) {
                (Some(p), Some(c)) => {
                    let e4 = v["engine"].as_str() == Some("e4");
                    let run = |c: &vh::ops::Case| if e4 { exec_e4(c) } else { exec_case(c, p) };
                    let fails = |c: &vh::ops::Case| run(c).violation.is_some();
                    if !fails(&c) {
                        println!("minimize: the case does not violate {} on this tree", p.id());
                        std::process::exit(0);
                    }
                    let min = vh::runner::minimize(&c, &fails);
                    let viol = run(&min).violation;
                    v["case"] = serde_json::to_value(&min).unwrap();
                    if let Some(x) = viol {
                        v["observed"] = serde_json::json!(x.msg);
                        v["signature"] = serde_json::json!(x.sig);
                        v["step"] = serde_json::json!(x.step);
                        println!("  {}", x.msg);
                    }
                    let _ = std::fs::write(&path, serde_json::to_string_pretty(&v).unwrap());
                    std::process::exit(1);
                }
                _ => {
                    println!("minimize: cannot read {}", path);
                    std::process::exit(2);
                }
            }
        }
        Some("replay") => {
            let path = args.get(2).cloned().unwrap_or_default();
            match replay_file(&path) {
                Ok(None) => println!("replay {}: property holds on this tree", path),
                Ok(Some(v)) => {
                    println!("VIOLATION property={} replay={}", v.prop, path);
                    println!("  {}", v.msg);
                    std::process::exit(1);
                }
                Err(e) => {
                    println!("replay error: {}", e);
                    std::process::exit(2);
                }
            }
        }
        _ => {
            eprintln!("usage: vh check <ID> [--tier quick|thorough] [--seed N] | vh replay <file>");
            std::process::exit(2);
        }
    }
}
