//! Key-type universes (C02: "lookups through a borrowed form of the key behave identically to
//! lookups by the owned key"): key types whose borrowed form is unsized and whose equality is
//! not what a shortcut might assume.
//!   * prefix universe: `K = &'static str`, the keys are prefixes of ONE static buffer (distinct
//!     keys that all start at the same address); lookups through the same slices, through
//!     slices of a second copy of the buffer, and through owned copies
//!   * path universe: `K = PathBuf`, lookups through `&Path` spellings that are equal to the
//!     stored key but differ in length ("d3//f", "d3/./f"), as `Path`'s `Eq` / `Hash` allow
//! Every cache kind, one-bucket and ordinary hashers; oracle: a shadow map keyed by the logical
//! key (index of the prefix / path).
use crate::inst::{reset_case, take_last_panic, HS, KHS};
use crate::interp::{CaseReport, Violation};
use crate::ops::Kind;
use caches::{AdaptiveCacheBuilder, Cache, PutResult, RawLRU, SegmentedCacheBuilder, TwoQueueCacheBuilder, WTinyLFUCacheBuilder};
use proptest::prelude::*;
use serde::{Deserialize, Serialize};
use std::borrow::Borrow;
use std::collections::HashMap;
use std::hash::Hash;
use std::panic::{catch_unwind, AssertUnwindSafe};
use std::path::{Path, PathBuf};

#[derive(Clone, Debug, Serialize, Deserialize, PartialEq)]
pub enum KOp {
    /// (logical key, spelling used for the lookup forms)
    Put(u8),
    Get(u8, u8),
    GetMut(u8, u8),
    Peek(u8, u8),
    PeekMut(u8, u8),
    Contains(u8, u8),
    Remove(u8, u8),
}

#[derive(Clone, Debug, Serialize, Deserialize)]
pub struct KCase {
    pub kind: Kind,
    pub cap: usize,
    /// 0 = one-bucket hasher, 1 = FNV, 2 = identity
    pub hasher: u8,
    pub paths: bool,
    pub ops: Vec<KOp>,
}

pub fn kcase_strategy(thorough: bool) -> BoxedStrategy<KCase> {
    let key = || 0u8..12;
    let op = prop_oneof![
        8 => key().prop_map(KOp::Put),
        4 => (key(), 0u8..3).prop_map(|(k, s)| KOp::Get(k, s)),
        2 => (key(), 0u8..3).prop_map(|(k, s)| KOp::GetMut(k, s)),
        3 => (key(), 0u8..3).prop_map(|(k, s)| KOp::Peek(k, s)),
        2 => (key(), 0u8..3).prop_map(|(k, s)| KOp::PeekMut(k, s)),
        3 => (key(), 0u8..3).prop_map(|(k, s)| KOp::Contains(k, s)),
        3 => (key(), 0u8..3).prop_map(|(k, s)| KOp::Remove(k, s)),
    ];
    (prop::sample::select(vec![Kind::Lru, Kind::Seg, Kind::TwoQ, Kind::Arc, Kind::Wtl]), 1usize..=9, 0u8..3, any::<bool>(), prop::collection::vec(op, 0..=(if thorough { 80 } else { 36 })))
        .prop_map(|(kind, cap, hasher, paths, ops)| KCase { kind, cap, hasher, paths, ops })
        .boxed()
}

static BUF: &str = "abcdefghijklmnop";
// a second copy at another address (leaked once per thread; tiny)
thread_local! {
    static BUF2: &'static str = Box::leak(String::from("abcdefghijklmnop").into_boxed_str());
}

fn hs(h: u8) -> HS {
    match h % 3 {
        0 => HS::Zero,
        1 => HS::Fnv(5),
        _ => HS::Ident,
    }
}

fn pr<K>(r: PutResult<K, u32>) -> (&'static str, Option<u32>, Option<u32>) {
    match r {
        PutResult::Put => ("Put", None, None),
        PutResult::Update(v) => ("Update", None, Some(v)),
        PutResult::Evicted { value, .. } => ("Evicted", Some(value), None),
        PutResult::EvictedAndUpdate { evicted, update } => ("EvictedAndUpdate", Some(evicted.1), Some(update)),
    }
}

fn v(step: usize, class: &str, msg: String) -> Violation {
    Violation { prop: "C02", step, msg, sig: format!("keys/-/{}", class) }
}

/// drive one cache; `owned(k)` makes the key to store, `look(k, spelling)` runs a lookup closure
/// with the borrowed form
fn drive<K, Q, C>(c: &mut C, case: &KCase, owned: &dyn Fn(u8) -> K, borrowed: &dyn Fn(u8, u8) -> Box<dyn AsRef<Q>>, describe: &dyn Fn(u8, u8) -> String) -> Result<(), Violation>
where
    K: Hash + Eq + Borrow<Q>,
    Q: Hash + Eq + ?Sized,
    C: Cache<K, u32>,
{
    // last value stored per logical key while it may be resident
    let mut shadow: HashMap<u8, u32> = HashMap::new();
    for (i, op) in case.ops.iter().enumerate() {
        let tok = crate::ops::token(i, 0);
        match op {
            KOp::Put(k) => {
                let (_, ev, upd) = pr(c.put(owned(*k), tok));
                if let Some(u) = upd {
                    if shadow.get(k) != Some(&u) {
                        return Err(v(i, "update-value", format!("step {i} put(key #{k}) on {}: Update({u}) but the value last stored for that key is {:?}", case.kind.short(), shadow.get(k))));
                    }
                }
                if let Some(e) = ev {
                    // some entry left: forget whichever logical key carried that value
                    if e != tok {
                        shadow.retain(|_, x| *x != e);
                    }
                }
                if ev != Some(tok) {
                    shadow.insert(*k, tok);
                }
            }
            KOp::Get(k, s) | KOp::GetMut(k, s) | KOp::Peek(k, s) | KOp::PeekMut(k, s) | KOp::Contains(k, s) | KOp::Remove(k, s) => {
                let q = borrowed(*k, *s);
                let q: &Q = (*q).as_ref();
                let r: Option<u32> = match op {
                    KOp::Get(..) => c.get(q).copied(),
                    KOp::GetMut(..) => c.get_mut(q).map(|x| {
                        let o = *x;
                        *x = tok;
                        o
                    }),
                    KOp::Peek(..) => c.peek(q).copied(),
                    KOp::PeekMut(..) => c.peek_mut(q).map(|x| {
                        let o = *x;
                        *x = tok;
                        o
                    }),
                    KOp::Contains(..) => c.contains(q).then_some(shadow.get(k).copied().unwrap_or(0)),
                    _ => c.remove(q),
                };
                let what = format!("step {i} {:?} through {} on {} (capacity {}, hasher {})", op, describe(*k, *s), case.kind.short(), case.cap, case.hasher % 3);
                match (r, shadow.get(k).copied()) {
                    (Some(got), Some(want)) if got != want => return Err(v(i, "wrong-value", format!("{what}: returned {got}, the value last stored for that key is {want}"))),
                    (Some(got), None) => return Err(v(i, "phantom-hit", format!("{what}: returned {got} although that key was never put, or was removed / reported evicted and not put again"))),
                    _ => {}
                }
                // the same lookup through the owned form must agree
                let o = owned(*k);
                let by_owned = c.peek(o.borrow()).copied();
                let by_borrowed = c.peek(q).copied();
                if by_owned != by_borrowed && !matches!(op, KOp::Remove(..)) {
                    return Err(v(i, "forms-disagree", format!("{what}: afterwards peek through the owned key gives {:?}, through the borrowed form {:?}", by_owned, by_borrowed)));
                }
                if r.is_some() && matches!(op, KOp::GetMut(..) | KOp::PeekMut(..)) {
                    shadow.insert(*k, tok);
                }
                if matches!(op, KOp::Remove(..)) {
                    // 2Q / ARC: a key that was not resident may be a ghost; whether remove()
                    // forgets a ghost is not specified, so it stays "possibly retained"
                    if r.is_some() || !matches!(case.kind, Kind::TwoQ | Kind::Arc) {
                        shadow.remove(k);
                    }
                    if c.contains(q) || c.contains(o.borrow()) {
                        return Err(v(i, "removed-still-resident", format!("{what}: the key is still reported resident")));
                    }
                }
            }
        }
        // a key that is resident right after its own put / hit must be found through every spelling
        if let KOp::Put(k) = op {
            if shadow.contains_key(k) && !matches!(case.kind, Kind::Wtl) {
                for s in 0..3u8 {
                    let q = borrowed(*k, s);
                    let q: &Q = (*q).as_ref();
                    if c.peek(q).copied() != shadow.get(k).copied() {
                        return Err(v(i, "not-found-through-spelling", format!("step {i}: right after put(key #{k}) on {} the lookup through {} gives {:?}, stored {:?}", case.kind.short(), describe(*k, s), c.peek(q).copied(), shadow.get(k))));
                    }
                }
            }
        }
    }
    Ok(())
}

struct StrQ(&'static str);
impl AsRef<str> for StrQ {
    fn as_ref(&self) -> &str {
        self.0
    }
}
struct OwnedStrQ(String);
impl AsRef<str> for OwnedStrQ {
    fn as_ref(&self) -> &str {
        &self.0
    }
}
struct PathQ(PathBuf);
impl AsRef<Path> for PathQ {
    fn as_ref(&self) -> &Path {
        &self.0
    }
}

macro_rules! with_kind {
    ($case:expr, $K:ty, $body:expr) => {{
        let case: &KCase = $case;
        let h = || hs(case.hasher);
        let cap = case.cap;
        match case.kind {
            Kind::Lru => {
                let mut c: RawLRU<$K, u32, caches::DefaultEvictCallback, HS> = RawLRU::with_hasher(cap, h()).map_err(|e| e.to_string())?;
                $body(&mut c)
            }
            Kind::Seg => {
                let mut c = SegmentedCacheBuilder::new(cap, cap.div_ceil(2)).set_probationary_hasher(h()).set_protected_hasher(h()).finalize::<$K, u32>().map_err(|e| e.to_string())?;
                $body(&mut c)
            }
            Kind::TwoQ => {
                let mut c = TwoQueueCacheBuilder::new(cap.max(2)).set_recent_hasher(h()).set_frequent_hasher(h()).set_ghost_hasher(h()).finalize::<$K, u32>().map_err(|e| e.to_string())?;
                $body(&mut c)
            }
            Kind::Arc => {
                let mut c = AdaptiveCacheBuilder::new(cap).set_recent_hasher(h()).set_frequent_hasher(h()).set_recent_evict_hasher(h()).set_frequent_evict_hasher(h()).finalize::<$K, u32>().map_err(|e| e.to_string())?;
                $body(&mut c)
            }
            _ => {
                let mut c = WTinyLFUCacheBuilder::<$K, KHS<$K>, HS, HS, HS>::with_hashers(KHS::Fnv(3), h(), h(), h())
                    .set_window_cache_size(cap.min(3))
                    .set_protected_cache_size(cap)
                    .set_probationary_cache_size(cap)
                    .set_samples(16)
                    .finalize::<u32>()
                    .map_err(|e| e.to_string())?;
                $body(&mut c)
            }
        }
    }};
}

fn run_prefix(case: &KCase) -> Result<Result<(), Violation>, String> {
    let owned = |k: u8| -> &'static str { &BUF[..(k as usize % 12) + 1] };
    let borrowed = |k: u8, s: u8| -> Box<dyn AsRef<str>> {
        let n = (k as usize % 12) + 1;
        match s % 3 {
            0 => Box::new(StrQ(&BUF[..n])),
            1 => Box::new(StrQ(BUF2.with(|b| &b[..n]))),
            _ => Box::new(OwnedStrQ(BUF[..n].to_string())),
        }
    };
    let describe = |k: u8, s: u8| format!("{:?} ({})", &BUF[..(k as usize % 12) + 1], ["a prefix slice of the buffer the keys point into", "a slice of a second copy of the buffer", "a separately allocated String"][s as usize % 3]);
    Ok(with_kind!(case, &'static str, |c| drive::<&'static str, str, _>(c, case, &owned, &borrowed, &describe)))
}

fn run_paths(case: &KCase) -> Result<Result<(), Violation>, String> {
    let owned = |k: u8| -> PathBuf { PathBuf::from(format!("d{}/f", k % 12)) };
    let spell = |k: u8, s: u8| -> String {
        match s % 3 {
            0 => format!("d{}/f", k % 12),
            1 => format!("d{}//f", k % 12),
            _ => format!("d{}/./f", k % 12),
        }
    };
    let borrowed = |k: u8, s: u8| -> Box<dyn AsRef<Path>> { Box::new(PathQ(PathBuf::from(spell(k, s)))) };
    let describe = |k: u8, s: u8| format!("the path spelled {:?} (equal to the stored PathBuf)", spell(k, s));
    Ok(with_kind!(case, PathBuf, |c| drive::<PathBuf, Path, _>(c, case, &owned, &borrowed, &describe)))
}

pub fn run_keys(case: &KCase) -> CaseReport {
    reset_case();
    let _ = take_last_panic();
    let mut rep = CaseReport::default();
    rep.steps = case.ops.len();
    let r = catch_unwind(AssertUnwindSafe(|| if case.paths { run_paths(case) } else { run_prefix(case) }));
    match r {
        Ok(Ok(Ok(()))) => {}
        Ok(Ok(Err(x))) => rep.violation = Some(x),
        Ok(Err(e)) => rep.unbuildable = Some(e),
        Err(_) => rep.aborted_by_panic = Some(take_last_panic().unwrap_or_default()),
    }
    let puts = case.ops.iter().filter(|o| matches!(o, KOp::Put(_))).count();
    rep.nontrivial = puts > case.cap && case.ops.iter().any(|o| matches!(o, KOp::Get(_, s) | KOp::Peek(_, s) | KOp::Remove(_, s) if *s % 3 != 0));
    rep
}
