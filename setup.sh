#!/bin/bash
# builds the harness (both feature configurations of the library) once, offline
V="$(cd "$(dirname "${BASH_SOURCE[0]}")" && pwd)"
export CARGO_NET_OFFLINE=true
set -e
mkdir -p "$V/target" "$V/evidence" "$V/work"
cd "$V/harness"
cargo build --release --offline --target-dir "$V/target/std"
cargo build --release --offline --no-default-features --features nostd --target-dir "$V/target/nostd"
echo "setup ok"
