//! E3 — coverage-guided fuzz target: bytes -> Case (hand-decoded through
//! `arbitrary::Unstructured`) -> the same interpreter and oracles as E1, with the property
//! selected by VERIF_PROP. An oracle failure aborts the process (libFuzzer saves the input).
#![no_main]
use arbitrary::Unstructured;
use libfuzzer_sys::fuzz_target;
use vh::checks::exec_case;
use vh::ops::*;

fn decode(u: &mut Unstructured) -> arbitrary::Result<Case> {
    let kind = Kind::ALL[u.int_in_range(0..=6usize)?];
    let mut cfg = Cfg::simple(u.int_in_range(1..=6usize)?);
    cfg.b = u.int_in_range(1..=4usize)?;
    cfg.c = u.int_in_range(1..=4usize)?;
    let ratios = [0.0, 0.1, 0.25, 0.34, 0.5, 0.75, 0.99, 1.0];
    cfg.rr = ratios[u.int_in_range(0..=7usize)?];
    cfg.gr = ratios[u.int_in_range(0..=7usize)?];
    if kind == Kind::TwoQ && (cfg.a as f64 * cfg.gr).floor() < 1.0 {
        cfg.gr = 1.0;
    }
    if kind == Kind::Wtl {
        cfg.a = cfg.a.min(3);
    }
    cfg.samples = u.int_in_range(1..=64usize)?;
    cfg.kh = [KhSpec::Ident, KhSpec::Const, KhSpec::Fnv(3)][u.int_in_range(0..=2usize)?];
    let hs = [HSpec::Fnv(1), HSpec::Ident, HSpec::Zero, HSpec::Fnv(9)];
    for i in 0..4 {
        cfg.hs[i] = hs[u.int_in_range(0..=3usize)?];
    }
    cfg.sketch_seed = Some(u.arbitrary::<u8>()? as u64);
    cfg.perm = (cfg.sketch_seed.unwrap_or(0) >> 6) as u8; // builder call sequence
    let alphabet = (cfg.total_cap(kind) * 2 + 2) as u16;
    let mut ops = vec![];
    while !u.is_empty() && ops.len() < 200 {
        let code: u8 = u.arbitrary()?;
        let k = (u.arbitrary::<u8>()? as u16) % alphabet;
        let f: u8 = u.arbitrary()?;
        let (b, w) = (f & 1 == 1, f & 2 == 2);
        let op = match code % 40 {
            0..=9 => Op::Put(k),
            10..=13 => Op::Get(k, b),
            14..=15 => Op::GetMut(k, b, w),
            16 => Op::Peek(k, b),
            17 => Op::PeekMut(k, b, w),
            18 => Op::Contains(k, b),
            19..=20 => Op::Remove(k, b),
            21 => Op::Purge,
            22 => Op::Lens,
            23 => Op::Resize(k % (2 * cfg.a as u16 + 2)),
            24 => Op::GetLru,
            25 => Op::GetLruMut(w),
            26 => Op::PeekLruMut(w),
            27 => Op::PeekOrPut(k),
            28 => Op::PeekMutOrPut(k, w),
            29 => Op::ContainsOrPut(k),
            30 => Op::RemoveLru,
            31..=32 => Op::PutProtected(k),
            33 => Op::RemoveLruFrom(f & 1),
            34 => Op::SegPeek { seg: f & 1, mru: f & 2 == 2, mutable: f & 4 == 4, write: f & 8 == 8 },
            35..=36 => {
                let n = (f >> 4) as usize % 8;
                let pat: Vec<bool> = (0..n).map(|i| (k >> i) & 1 == 1).collect();
                Op::Iter { list: f & 3, fam: (f >> 2) % 12, pat, clone_at: if f & 0x80 != 0 { 255 } else { k as u8 % 6 }, write: w, fin: if code / 40 >= 2 { (code / 40).wrapping_mul(53) ^ f.rotate_left(3) ^ (k as u8).wrapping_mul(29) } else { 0 } }
            }
            37 => Op::CloneSwap,
            38 => Op::CloneDrop,
            _ => Op::GetMru,
        };
        ops.push(op);
    }
    Ok(Case { kind, cfg, keys: KeyMode::Tracked, alphabet, ops })
}

fuzz_target!(|data: &[u8]| {
    static INIT: std::sync::Once = std::sync::Once::new();
    INIT.call_once(|| {
        // libFuzzer's hook aborts on every panic; the interpreter catches library panics itself
        vh::inst::install_panic_hook();
        vh::inst::thread_init();
    });
    let pname = std::env::var("VERIF_PROP").unwrap_or_else(|_| "C01".into());
    let mut u = Unstructured::new(data);
    let case = match decode(&mut u) {
        Ok(c) => c,
        Err(_) => return,
    };
    // the multi-instance and fault-injection properties reuse the decoded history
    let (violation, payload): (Option<vh::interp::Violation>, String) = match pname.as_str() {
        "C13" => {
            let n = case.ops.len();
            let (hist, ins): (Vec<Op>, Vec<Op>) = case.ops.iter().cloned().partition(|o| !o.is_read_only());
            let ins: Vec<(usize, Op)> = ins.into_iter().enumerate().map(|(j, o)| ((j * 7) % (n + 1), o)).take(6).collect();
            let mut ins = ins;
            ins.sort_by_key(|x| x.0);
            let t = vh::multi::C13Case { case: Case { ops: hist, ..case.clone() }, ins };
            (vh::checks::exec_c13(&t).violation, serde_json::to_string(&t).unwrap_or_default())
        }
        "C16" => {
            if !case.kind.cloneable() {
                return;
            }
            let n = case.ops.len();
            let t = vh::multi::C16Case {
                case: Case { ops: case.ops[..n / 2].to_vec(), ..case.clone() },
                lock: case.ops[n / 2..n - n / 4].to_vec(),
                diverge: case.ops[n - n / 4..].to_vec(),
                mutate_original: n % 2 == 0,
            };
            (vh::checks::exec_c16(&t).violation, serde_json::to_string(&t).unwrap_or_default())
        }
        "C17" => {
            if case.kind == Kind::LruCbD {
                return;
            }
            (vh::checks::exec_c17(&case).violation, serde_json_case(&case))
        }
        "C18" => {
            let mut c = case.clone();
            c.ops.truncate(40);
            if c.kind == Kind::LruCbD {
                return;
            }
            (vh::checks::exec_e4(&c).violation, serde_json_case(&c))
        }
        other => {
            let prop = vh::registry::prop_of(other).unwrap_or(vh::interp::Prop::C01);
            if !prop.kind_ok(case.kind) {
                return;
            }
            (exec_case(&case, prop).violation, serde_json_case(&case))
        }
    };
    if let Some(v) = violation {
        eprintln!("VIOLATION-IN-FUZZ property={} {}", v.prop, v.msg);
        eprintln!("CASE {}", payload);
        std::process::abort();
    }
});

fn serde_json_case(c: &Case) -> String {
    vh::checks::case_json(c)
}
