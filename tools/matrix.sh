#!/bin/bash
# tools/matrix.sh <seeded-dir> [check ids...]
# Evaluate one seeded change (a directory with patch.diff) against the checks WITHOUT touching
# /repo: a scratch worktree of /repo's HEAD gets the patch, the harness is built against it
# (cargo `paths` override) into a scratch target dir, every requested check's quick tier runs,
# and everything is removed again. Prints one line per check: <name> <id> <OK|VIOLATION|INCONCLUSIVE>.
V="$(cd "$(dirname "${BASH_SOURCE[0]}")/.." && pwd)"
D="$(cd "$1" && pwd)"; shift
NAME="$(basename "$D")"
IDS=("$@"); [ ${#IDS[@]} -eq 0 ] && IDS=(C01 C02 C03 C04 C05 C06 C07 C08 C09 C10 C11 C12 C13 C14 C15 C16 C17 C18 C19 C20)
S="${MATRIX_SCRATCH:-/tmp/mx}/$NAME"
rm -rf "$S"; mkdir -p "$S"
git -C /repo worktree add -q --detach "$S/repo" HEAD || exit 9
cp /repo/Cargo.lock "$S/repo/" 2>/dev/null
if ! git -C "$S/repo" apply "$D/patch.diff"; then echo "$NAME APPLY-FAILED"; git -C /repo worktree remove --force "$S/repo"; rm -rf "$S"; exit 8; fi
for id in "${IDS[@]}"; do
  out=$(VERIF_REPO="$S/repo" VERIF_OUT="$S/out" "$V/check" "$id" quick 2>/dev/null)
  rc=$?
  case $rc in 0) r=OK;; 1) r=VIOLATION;; *) r=INCONCLUSIVE;; esac
  echo "$NAME $id $r $(echo "$out" | grep -A1 -E '^(VIOLATION|INCONCLUSIVE)' | tail -1 | cut -c1-220)"
  # MATRIX_KEEP=<dir>: keep up to two shrunk replays per (change, check) for the regress/ collection
  if [ -n "$MATRIX_KEEP" ] && [ $rc -eq 1 ]; then
    n=0
    for f in "$S/out/replays/$id"/*.json; do
      [ -f "$f" ] || continue
      case "$f" in *crash-*) continue;; esac
      grep -q '"engine": "e5"' "$f" && continue
      mkdir -p "$MATRIX_KEEP/$NAME/$id"; cp "$f" "$MATRIX_KEEP/$NAME/$id/"
      n=$((n+1)); [ $n -ge 2 ] && break
    done
  fi
  rm -rf "$S/out/replays"
done
git -C /repo worktree remove --force "$S/repo"
rm -rf "$S"
