p='src/lru/adaptive.rs'
s=open(p).read()
old='''        self.recent_evict.purge();
        self.frequent_evict.purge();
    }'''
new='''        self.recent_evict.purge();
        self.frequent_evict.purge();
        self.p = 0;
    }'''
assert s.count(old)==1
open(p,'w').write(s.replace(old,new))
