p='src/lru/segmented.rs'
s=open(p).read()
old='''        if self.probationary.contains(&k) {
            return self.put(k, v);
        }
        self.protected.put(k, v)'''
new='''        if self.probationary.contains(&k) {
            return self.put(k, v);
        }
        if self.protected.contains(&k) || self.protected.len() < self.protected_size {
            return self.protected.put(k, v);
        }
        // overflow of the protected segment is handled like a promotion: demote its LRU
        match self.protected.put(k, v) {
            PutResult::Evicted { key, value } => self.probationary.put(key, value),
            r => r,
        }'''
assert s.count(old)==1
open(p,'w').write(s.replace(old,new))
