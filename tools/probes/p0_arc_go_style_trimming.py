# the original (Go) ARC trims the ghost lists with the lengths *after* the eviction
p='src/lru/adaptive.rs'
s=open(p).read()
a="        if recent_evict_len > self.size - self.p {\n            self.recent_evict.remove_lru();"
b="        if freq_evict_len > self.p {\n            self.frequent_evict.remove_lru();"
assert s.count(a)==1 and s.count(b)==1
s=s.replace(a,"        if self.recent_evict.len() > self.size - self.p {\n            self.recent_evict.remove_lru();")
s=s.replace(b,"        if self.frequent_evict.len() > self.p {\n            self.frequent_evict.remove_lru();")
open(p,'w').write(s)
