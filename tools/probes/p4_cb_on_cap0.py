p='src/lru/raw.rs'
s=open(p).read()
old='''                if self.cap == 0 {
                    return PutResult::Evicted { key: k, value: v };'''
new='''                if self.cap == 0 {
                    self.cb(&k, &v);
                    return PutResult::Evicted { key: k, value: v };'''
assert s.count(old)==1
open(p,'w').write(s.replace(old,new))
