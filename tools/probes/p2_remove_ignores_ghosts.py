p='src/lru/two_queue.rs'
s=open(p).read()
old='''            .or_else(|| self.recent.remove(k))
            .or_else(|| self.ghost.remove(k))'''
new='''            .or_else(|| self.recent.remove(k))'''
assert s.count(old)==1
open(p,'w').write(s.replace(old,new))
p='src/lru/adaptive.rs'
s=open(p).read()
old='''            .or_else(|| self.frequent.remove(k))
            .or_else(|| self.recent_evict.remove(k))
            .or_else(|| self.frequent_evict.remove(k))'''
new='''            .or_else(|| self.frequent.remove(k))'''
assert s.count(old)==1
open(p,'w').write(s.replace(old,new))
