p='src/lru/raw.rs'
s=open(p).read()
old='''            unsafe impl<'a, K: Sync, V: Sync> Send for $t {}
            unsafe impl<'a, K: Sync, V: Sync> Sync for $t {}'''
new='''            unsafe impl<'a, K: Sync + Send, V: Sync + Send> Send for $t {}
            unsafe impl<'a, K: Sync + Send, V: Sync + Send> Sync for $t {}'''
assert s.count(old)==1
s=s.replace(old,new)
old='''            unsafe impl<'a, K: Sync, V: Send> Send for $t {}
            unsafe impl<'a, K: Sync, V: Sync> Sync for $t {}'''
new='''            unsafe impl<'a, K: Sync + Send, V: Send + Sync> Send for $t {}'''
assert s.count(old)==1
s=s.replace(old,new)
open(p,'w').write(s)
