p='src/lru/raw.rs'
s=open(p).read()
old='''        f.debug_struct("RawLRU")
            .field("len", &self.len())
            .field("cap", &self.cap())
            .finish()'''
new='''        f.debug_map().entries(self.iter().map(|(k, _)| (k as *const K as usize % 7, 0u8))).finish()?;
        write!(f, " RawLRU(len={}, capacity={})", self.len(), self.cap())'''
assert s.count(old)==1
open(p,'w').write(s.replace(old,new))
