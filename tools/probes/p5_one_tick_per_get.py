p='src/lfu/wtinylfu.rs'
s=open(p).read()
assert s.count("        self.tinylfu.try_reset();\n        self.tinylfu.increment(k);")==2
open(p,'w').write(s.replace("        self.tinylfu.try_reset();\n        self.tinylfu.increment(k);","        self.tinylfu.increment(k);"))
