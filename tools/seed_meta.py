#!/usr/bin/env python3
"""Builds seeded/<name>/meta.json and seeded/MATRIX.md from the agents' notes, the
confirmation logs and the output of tools/matrix.sh (one line per <name> <check> <verdict>)."""
import json, os, re, sys, glob
V = os.path.dirname(os.path.dirname(os.path.abspath(__file__)))
res = {}
for path in sys.argv[1:]:
    for line in open(path, errors="replace"):
        p = line.split(None, 3)
        if len(p) >= 3 and re.match(r"C\d\d", p[1] or ""):
            res.setdefault(p[0], {})[p[1]] = (p[2], p[3].strip() if len(p) > 3 else "")
try:
    THOROUGH = json.load(open(os.path.join(V, "seeded", "thorough_notes.json")))
except Exception:
    THOROUGH = {}
ids = ["C%02d" % i for i in range(1, 21)]
rows = []
for d in sorted(glob.glob(os.path.join(V, "seeded", "*-*"))):
    name = os.path.basename(d)
    if not os.path.isdir(d):
        continue
    prop = name.split("-")[0].split("_")[-1]
    am = {}
    try:
        am = json.load(open(os.path.join(d, "agent_meta.json")))
    except Exception:
        pass
    confirm = open(os.path.join(d, "confirm.log"), errors="replace").read() if os.path.exists(os.path.join(d, "confirm.log")) else ""
    r = res.get(name, {})
    caught = sorted(k for k, v in r.items() if v[0] == "VIOLATION")
    incon = sorted(k for k, v in r.items() if v[0] == "INCONCLUSIVE")
    meta = {
        "property": prop,
        "summary": am.get("summary", ""),
        "needs": am.get("needs", ""),
        "written_by": "independent sub-agent that saw only the property text and a scratch worktree",
        "confirmed_here": {
            "how": "scratch worktree: demo.rs as tests/demo.rs on unchanged code, with patch.diff applied; then the full unedited suite and the no_std build with the patch applied (tools: confirm_seed.sh)",
            "log": confirm.strip().splitlines(),
        },
        "agent_ran": am.get("ran", []),
        "checks_run": "tools/matrix.sh %s (quick tier of every check against a scratch copy of the repository with the patch applied)" % ("seeded/" + name),
        "caught_by": caught,
        "inconclusive": incon,
        "first_message_of_owning_check": r.get(prop, ("", ""))[1],
    }
    if name in THOROUGH:
        meta["caught_only_in_thorough_tier"] = THOROUGH[name]
    json.dump(meta, open(os.path.join(d, "meta.json"), "w"), indent=1)
    rows.append((name, prop, r))
with open(os.path.join(V, "seeded", "MATRIX.md"), "w") as f:
    f.write("# Seeded changes x checks (quick tier; V = VIOLATION reported, . = held, ? = inconclusive, T = held in the quick tier, reported by the thorough tier, blank = not run)\n\n")
    f.write("| change | " + " | ".join(i[1:] for i in ids) + " | summary |\n|---|" + "---|" * (len(ids) + 1) + "\n")
    for name, prop, r in rows:
        cells = []
        for i in ids:
            v = r.get(i, ("", ""))[0]
            c = {"VIOLATION": "V", "OK": ".", "INCONCLUSIVE": "?"}.get(v, " ")
            if i == prop and name in THOROUGH and c == ".":
                c = "T"
            if i == prop:
                c = "**" + c + "**"
            cells.append(c)
        summ = ""
        try:
            summ = json.load(open(os.path.join(V, "seeded", name, "meta.json")))["summary"][:110]
        except Exception:
            pass
        f.write("| %s | %s | %s |\n" % (name, " | ".join(cells), summ.replace("|", "/")))
print("wrote meta for", len(rows), "changes")
