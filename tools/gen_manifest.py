#!/usr/bin/env python3
"""Writes /verif/MANIFEST.json from the table below (kept here so the file stays valid)."""
import json, os, subprocess
V = os.path.dirname(os.path.dirname(os.path.abspath(__file__)))

def hooks_commits():
    try:
        out = subprocess.check_output(["git", "-C", "/repo", "log", "--format=%h %s"], text=True)
        return [l.split()[0] for l in out.splitlines() if l.split(" ", 1)[1].startswith("verif-hooks")]
    except Exception:
        return []

# id -> (engine, level category, level text, level note, technique)
CHECKS = {
 "C01": ("E1 history engine (+E2 small-scope closure)", "exploration",
         "Stateful property-based testing: generated histories over all five cache kinds and corner configurations; after every step the partition views, len/cap/is_empty/contains and the per-partition accessors are checked against the bounds the statement names. Exploration is the right level: the quantifier is over histories x configurations and the invariant is cheap to evaluate at every step.",
         "Bounded by generated sizes (capacities <= 64, 8 % long histories up to 160 / 400 ops; resize targets up to usize::MAX); inner lists are observed through the verif-hooks raw-link walk. Also: constructor capacity contracts for every construction path (inner lists included), the 2Q quota grid, and caches built by From / collect() from sources with repeated keys; large-scale engine (257 .. 131 073 entries, u64 keys: len/cap/retained accounting, no eviction while there is room, resize contract).",
         "stateful PBT (proptest), invariant oracle over state views after every step"),
 "C02": ("E1 history engine", "exploration",
         "Generated histories with unique value tokens over TKey and String keys (borrowed &str lookups), all hashers incl. constant-zero; a shadow map of the last stored value per key judges every lookup, eviction report and removal. Caches built by From / collect() from sources with repeated keys: every resident pair must be a pair given for that key. Key universes with unsized borrowed forms (prefix slices of one buffer as reference keys, PathBuf looked up through equal Path spellings of different length). Large-scale engine: value shadow, lookup agreement, purged / removed / evicted keys are not resident.",
         "Residency is never demanded except right after a key's own put (the statement allows forgetting).",
         "stateful PBT, shadow-map oracle (last stored value / released set)"),
 "C03": ("E1 in-process with poisoning allocator, quarantine and structural audit (+ASan/Miri thorough tiers)", "exploration",
         "Generated histories with emphasis on migrations, recycling, clone/purge/resize and dropping the cache at an arbitrary point; after every op every inner list is audited over raw links against its index and every key/value reached is checked for liveness (magic + registry); freed blocks are poisoned and quarantined. The same oracle runs on caches built by every From / collect() conversion from sources with repeated keys (vectors, deques, lists, slices, arrays, sets, heaps, maps), at large scale (audit at checkpoints), and - liveness / quarantine / double-free detection only - under a BuildHasher that is inconsistent (reseeds itself every few calls: safe but contract-breaking user code).",
         "Native runs see freed/uninitialised reads only through the poison pattern; sanitizer and Miri tiers cover samples. Aliasing-model UB is out of scope.",
         "stateful PBT with instrumented allocator + structural audit hook; sanitizer replay"),
 "C04": ("E1 with drop-tracked keys/values and counting allocator", "exploration",
         "Ownership ledger: after every step the set of live key/value objects must equal the set reachable through the cache (everything returned is dropped at once), double drops and reads of dropped objects are flagged, and after dropping the cache no object and no heap block allocated since construction remains. Also on caches built by conversions, with key / value types of which only one has a destructor (all five kinds), and at large scale (value ledger at checkpoints, after purge and after the drop).",
         "Block counts are per thread; harness bookkeeping is pre-allocated before the baseline reading.",
         "stateful PBT, conservation-ledger oracle over object ids and allocator block counts"),
 "C05": ("E6 argument grid + E1/E7 op sequences, std and no_std builds", "exploration",
         "Every constructor/builder/conversion over the cartesian grid of boundary arguments (exhaustive, journaled so that an aborting call is attributed) plus generated tuples; generated op sequences incl. resize to any value and extreme raw hashes on every constructed object; both feature configurations, overflow checks on; SampledLFU sample sizes up to usize::MAX; thorough tier: 4.5 M-insertion runs on estimators with subnormal false-positive ratios (internal counters pass 2^32). Oracle: no panic; documented-invalid arguments give the matching Err.",
         "Sizes bounded so that objects fit in memory; panics are caught with catch_unwind.",
         "exhaustive argument grid + PBT op sequences, no-panic / matching-error oracle"),
 "C06": ("E1 + E2 (reachable-state closure)", "exploration",
         "Model-based testing against a reference LRU list over the full RawLRU API: every return value and the full recency order (raw walk, iter(), reversed iter_lru()) after every step; E2 closes the reachable state space of capacities <= 3 (with resize). Metamorphic: the same history with seven value types (zero-sized, one byte, over-aligned, heap-owning) must give the same key-level observations. Large scale: exact O(log n) reference LRU up to 131 073 entries (results, full order at checkpoints, resize contract); medium scale: capacities 64..400 with up to 2 500 operations against the model.",
         "Reference model written from the statement; E2 state caps guard against blow-up.",
         "model-based stateful PBT + exhaustive small-scope state closure"),
 "C07": ("E1 + E2", "exploration", "Model-based testing against a reference segmented-LRU model incl. put_protected, remove_lru_from_*, peek_*_from_*; both segments' order and values compared after every step; value-type independence (seven value types); inner-list capacity contracts; medium-scale model runs; victim-list rule at large scale.",
         "put_protected of a new key into a full protected segment accepts both the documented LRU-put outcome and demotion.", "model-based stateful PBT + small-scope closure"),
 "C08": ("E1 + E2", "exploration", "Model-based testing against a reference 2Q model over sizes x ratio grid (quota 0, quota == size, ghost bound 1): results and all three lists compared after every step; exhaustive quota / ghost-bound grid through every constructor (sizes up to 2^21); value-type independence; medium-scale model runs; victim-list rules at large scale and a feedback-driven grid that sets recent_len = quota + d (d in -2..=3) at sizes 2 .. 66 000 and checks which queue gives the victim.",
         "Ghost-overflow order pinned by the in-repo test test_2q_cache_put; remove() of a ghost key accepts all outcomes.", "model-based stateful PBT + small-scope closure"),
 "C09": ("E1 + E2", "exploration", "Model-based testing against a reference ARC model incl. p: results, resident lists and p compared exactly, ghost lists up to the silent-discard leniency the statement grants; 0 <= p <= size asserted; value-type independence; medium-scale model runs; victim-list rules at large scale; the adaptation formula checked on a feedback-driven grid of ghost-list lengths (all exact multiples and neighbours up to 130 quick, every pair up to 240 thorough), both directions.",
         "Ghost lists may be the predicted list minus a least-recent suffix.", "model-based stateful PBT + small-scope closure"),
 "C10": ("E1 (+E2 with constant key hasher)", "exploration", "Model-based testing against a window+SLRU structure model whose admission verdicts are read from the real estimator at decision time; estimator effects bounded by an exact aged-count model (lower bound, doorkeeper membership, purge clears); a third of the cases with misaligned byte buffers; medium-scale runs.",
         "No estimate is ever predicted (time-seeded sketch); search runs with the sketch seed pinned through the hook.", "model-based stateful PBT with estimator-verdict oracle + lower-bound oracle"),
 "C12": ("E1", "exploration", "Every put-like call of every kind is judged by set arithmetic on the retained set (resident + ghosts) before/after, plus structural laws of PutResult (Eq/Clone/Copy/Debug) over all pairs of small integer payloads and of float payloads (NaN, -0.0; same-object comparison), clone_from for every pair; medium-scale runs.",
         "ARC evicts silently by design: one resident victim (least recent of recent/frequent) may vanish per put.", "stateful PBT, set-arithmetic oracle on state views; generated-pair oracle for PutResult laws"),
 "C14": ("E1 states x generated / exhaustive interleavings", "exploration", "Every iterator family of RawLRU and of each list of TwoQueueCache/AdaptiveCache is walked with generated next/next_back interleavings (all of them for short lists), clone points and writes; a two-cursor model over the raw-walk list predicts every item, size_hint, len, count and the state afterwards; the rest of every iterator is then consumed through one of 22 standard paths (last, nth, nth_back, fold, rfold, rev, skip, step_by, take, for_each, find, rfind, position, any, all, max_by_key, ...) (incl. skip counts near usize::MAX) and compared with the same path on a Vec iterator of the expected items; a panic while consuming is a violation. Caches built by the 14 conversions (From / FromIterator, repeated keys included) are walked too: every shared and mutable family yields exactly len() entries, each key once, the *_lru variants are exact reverses, keys/values are projections, fresh hints are exact and an alternating walk from both ends meets.",
         "Expected walk computed from the raw-link view of the same list.", "stateful PBT + exhaustive interleaving enumeration, two-cursor model oracle"),
 "C15": ("E1 on callback-carrying RawLRU", "exploration", "Both callback constructors, full API; per op the recorded callback invocations must equal the entries that left the list (least recent first, current values) and be empty otherwise.",
         "on_evict<K,V> is unbounded-generic: the recorder uses a type-name guarded cast.", "stateful PBT, departure-log oracle from state-view difference"),
 "C11": ("E7 estimator sequences, std and no_std builds", "exploration", "Generated TinyLFU configurations x operation sequences (all increment variants, try_reset, clear, estimate*, contains*, comparisons) with raw hashes incl. 0 and u64::MAX; (a third of the cases with byte buffers at addresses that are not word aligned; comparison helpers also through overlapping prefix slices of one buffer) an exact aged-count model gives a lower bound for every estimate (exact equality while a single key has been recorded), pins the reset schedule through the access counter, checks doorkeeper membership and that lt/le/gt/ge/eq order keys exactly as their estimates do; both feature configurations.",
         "Estimates are bounded, never predicted (count-min collisions inflate them); the sketch seed is pinned through the hook during search.", "PBT over component op sequences, exact aged-count model as lower-bound / equality oracle"),
 "C13": ("metamorphic two-run differential on E1 histories", "exploration", "A generated history H runs on cache A and H with generated read-only calls inserted runs on B (also at large scale: twin runs up to 131 073 entries comparing results, final orders and the estimator dump) (a clone taken right after construction, or a second construction): every inserted call must leave the full state view (all lists, p, estimator dump) unchanged, and every result of the original ops and every later view must be identical between A and B.",
         "Read-only call list taken from the statement (peek, peek_mut without write, contains, len/cap/is_empty, peek_lru/mru variants, get_mru, all iterators, per-segment accessors, Debug).", "metamorphic PBT (insertion of read-only calls), state-snapshot equality + two-run differential"),
 "C16": ("clone runner on E1 histories + E7 (TinyLFU)", "exploration", "Generated prefix -> clone -> equality of capacity, every segment's order/values and estimator dump -> lock-step suffix on both (results, views, callback logs) -> divergent suffix on / drop of one while the other is observed and then used; RawLRU (with and without callback), SegmentedCache, WTinyLFUCache, TinyLFU; clone() or clone_from into a differently configured, non-empty target (the callback must be cloned too); all hashers incl. RandomState.",
         "Instrumented keys/values make shared nodes surface as dead-object accesses.", "stateful PBT, snapshot equality + lock-step differential + independence oracle"),
 "C17": ("multi-instance differential on E1 histories", "exploration", "The same generated history (incl. clone, purge, resize) runs on six instances whose inner lists use different BuildHashers (FNV seeds, identity, constant-zero, two RandomStates, mixed per list): every result, state view, callback log and release order of departing entries must be identical. Conversions: the same ordered source converted twice (differently seeded default hashers) must give the same cache and the same behaviour afterwards.",
         "W-TinyLFU instances share the key hasher and a pinned sketch seed so that the estimator verdicts are the same.", "differential PBT across BuildHashers (pairwise trace equality)"),
 "C20": ("E7 cost-tracker sequences", "exploration", "Generated SampledLFU sequences over hashed keys and signed costs against an exact map+sum model: room_left after every step, update/remove results, fill_sample shape and membership; limits and costs up to the ends of the i64 range with an exact i128 oracle; String keys through &String / &str incl. the empty key; one case in sixteen contains bursts of up to 4 000 distinct keys (table sizes beyond 1024 slots) that are removed or cleared again.",
         "Where the exact value does not fit into an i64 nothing is demanded.", "PBT over component op sequences, exact map + sum model"),
 "C18": ("E4 fault enumeration in a supervised child process", "fault_enumeration", "For each generated history over all cache kinds, EVERY call into user code (Hash, Eq, Clone, Drop of keys and values, BuildHasher, Hasher::finish, KeyHasher, eviction callback) is a crash point: a dry run counts them, then the history is re-run once per index with a panic injected exactly there, the remaining operations run, the cache is inspected and dropped; the same for caches built by From / collect() conversions (the conversion's own user-code calls included). Oracle: no double drop, no operation on a dead/freed/uninitialised object, everything reachable is live, no write-after-free, and the process survives (a supervising parent turns a dead child into the violation, with the journaled case as replay).",
         "History length bounded (12 quick / 30 thorough); a shrinking resize after the injected panic is excluded by construction (it can spin forever: a hang, not a memory hazard) and counted; double panics are not generated.", "fault injection at every enumerated user-code call site of PBT-generated histories"),
 "C19": ("E5 program generator + rustc verdict", "exploration", "Generated client programs: every public reference- or iterator-returning method (120, checked against a source scan) x misuse templates (hold across mutation, across a reordering call, drop/outlive the cache, double &mut, copy/clone of a mutable borrow, iterator items, cross-thread) each next to a positive control; cargo check's diagnostics are the oracle; no safe constructor for the raw-pointer index key KeyRef. The Send/Sync table of all cache and iterator types over the complete 4x4 lattice of K and V, and of every hasher / key-hasher / callback parameter, (plus TinyLFU / SampledLFU parameters) is computed by a generated program and judged by the implications soundness needs. At run time: six threads call every &self method of a shared prefilled cache of each kind; every answer must be the single-threaded one (a &self method that writes makes Sync unjustified). And the iterator bodies: generated lists x the mutable iterator types (through 13 accessors of RawLRU / TwoQueueCache / AdaptiveCache) x generated next / next_back / nth / nth_back calls and a final std adaptor (rev, skip, step_by, take, last, fold, rfold); all references handed out are held at once and must point to pairwise different values of that list, at most len() of them.",
         "Finite template set: cannot show that no safe program misuses the API; rustc is trusted.", "generated compile-fail probes with positive controls (compiler as oracle) + exhaustive marker table + PBT over mutable-iterator call sequences (address-distinctness oracle)"),
}

NOT_YET = {
 "C11": "check not built yet in this revision (planned: E7 estimator sequences)",
 "C13": "check not built yet in this revision (planned: metamorphic insertion of read-only calls)",
 "C16": "check not built yet in this revision (planned: clone lock-step / independence)",
 "C17": "check not built yet in this revision (planned: same history under several hashers)",
 "C18": "check not built yet in this revision (planned: fault enumeration over user-code call sites)",
 "C19": "check not built yet in this revision (planned: generated client programs + rustc verdict)",
 "C20": "check not built yet in this revision (planned: E7 cost-tracker sequences)",
}
for k in list(NOT_YET):
    if k in CHECKS: del NOT_YET[k]

checks = []
for pid in sorted(CHECKS):
    eng, cat, text, note, tech = CHECKS[pid]
    checks.append({
        "property_id": pid,
        "quick_cmd": f"./check {pid} quick",
        "thorough_cmd": f"./check {pid} thorough",
        "evidence_file": f"/verif/evidence/{pid}.json",
        "replay_cmd_template": f"./check {pid} --replay {{path}}",
        "engine": eng,
        "level_claimed": {"category": cat, "text": text, "design_ref": f"DESIGN.md section 5 ({pid})"},
        "level_note": note,
        "technique": tech,
    })

m = {
 "version": 1,
 "setup_cmd": "./setup.sh",
 "hooks": {
   "guard": "verif-hooks (cargo feature of the caches crate)",
   "enable": "the harness depends on caches = { path = \"/repo\", default-features = false, features = [\"verif-hooks\"] } and selects caches/std or caches/hashbrown+libm through its own features",
   "baseline_off_cmd": "cd /repo && cargo test --workspace --no-fail-fast --offline",
   "source_commits": hooks_commits(),
   "add_only": True,
 },
 "engines": [
   {"name": "vh", "path": "/verif/harness", "serves_properties": sorted(CHECKS), "kind_free_text": "Rust crate: proptest-driven history engine (E1), small-scope closure (E2), fault enumeration (E4), program generator (E5), argument grid (E6), component sequences (E7); reference models; instrumented keys/values/allocator"},
 ],
 "checks": checks,
 "not_applicable": [{"property_id": k, "reason": v} for k, v in sorted(NOT_YET.items())],
 "notes": "All checks: ./check <ID> quick|thorough (env VERIF_SEED). Exit 0 held / 1 VIOLATION / 2 inconclusive (build failure, hang, time limit). Known findings: /verif/known_findings.txt (all 16 defects found so far are repaired by fix: commits in /repo and listed as fixed:).",
}
json.dump(m, open(os.path.join(V, "MANIFEST.json"), "w"), indent=1)
print("wrote MANIFEST.json with", len(checks), "checks;", len(NOT_YET), "not claimed")
