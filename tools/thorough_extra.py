#!/usr/bin/env python3
"""Extra stages of the thorough tier, run by ./check after the main (native) run held:
  E3   coverage-guided fuzzing of the same interpreter/oracle (cargo-fuzz, libFuzzer + ASan)
  ASan the native engines rebuilt with -Zsanitizer=address (C03, C04, C16, C18)
  Miri a small sample of generated histories under `cargo +nightly miri run` (C03)
  TSan the concurrent-reader scenario rebuilt with -Zsanitizer=thread -Zbuild-std (C19)
Results are merged into the evidence file. A stage whose tooling is unavailable or that hits
its wall-clock cap is reported as inconclusive *part* in the evidence, never as a violation.
usage: thorough_extra.py <ID> <verif dir> <out dir> <repo dir> <seed>"""
import glob, json, os, random, re, shutil, subprocess, sys, time

ID, V, OUT, REPO, SEED = sys.argv[1], sys.argv[2], sys.argv[3], sys.argv[4], int(sys.argv[5])
FUZZ_PROPS = {"C01", "C02", "C03", "C04", "C06", "C07", "C08", "C09", "C10", "C12", "C13", "C14", "C15", "C16", "C17", "C18"}
ASAN_PROPS = {"C03", "C04", "C16", "C18"}
MIRI_PROPS = {"C03"}
TSAN_PROPS = {"C19"}
env = dict(os.environ, CARGO_NET_OFFLINE="true", VERIF_REPO=REPO, VERIF_DIR=OUT)
cfg = [] if REPO == "/repo" else ["--config", 'paths=["%s"]' % REPO]
extra = {}
violations = []

def sh(cmd, cwd=None, timeout=None, env_=None, log=None):
    try:
        p = subprocess.run(cmd, cwd=cwd, env=env_ or env, stdout=subprocess.PIPE, stderr=subprocess.STDOUT, timeout=timeout, text=True, errors="replace")
        if log:
            open(log, "w").write(p.stdout)
        return p.returncode, p.stdout
    except subprocess.TimeoutExpired as e:
        return 124, (e.stdout or "") if isinstance(e.stdout, str) else ""

def have_nightly():
    rc, _ = sh(["cargo", "+nightly", "--version"])
    return rc == 0

def fuzz_stage():
    st = {"stage": "E3 libFuzzer"}
    tgt = os.path.join(OUT, "target", "fuzz")
    t0 = time.time()
    rc, out = sh(["cargo", "+nightly", "fuzz", "build", "--fuzz-dir", os.path.join(V, "fuzz"), "--target-dir", tgt] + cfg, cwd=os.path.join(V, "fuzz"), timeout=1500, log=os.path.join(OUT, "target", "build-fuzz.log"))
    if rc != 0:
        st["inconclusive"] = "fuzz target did not build (see target/build-fuzz.log)"
        return st
    st["build_s"] = round(time.time() - t0, 1)
    binp = os.path.join(tgt, "x86_64-unknown-linux-gnu", "release", "hist")
    work = os.path.join(OUT, "work", "fuzz", ID)
    shutil.rmtree(work, ignore_errors=True)
    corpus = os.path.join(work, "corpus")
    arts = os.path.join(work, "artifacts") + "/"
    os.makedirs(corpus); os.makedirs(arts)
    rnd = random.Random(SEED)
    for i in range(64):  # deterministic random seed inputs of full length (libFuzzer ramps length slowly)
        open(os.path.join(corpus, "seed%02d" % i), "wb").write(bytes(rnd.randrange(256) for _ in range(rnd.randrange(24, 256))))
    runs = 400000
    t0 = time.time()
    rc, out = sh([binp, corpus, "-runs=%d" % runs, "-seed=%d" % (SEED % 2**31 or 1), "-len_control=0", "-max_len=256", "-jobs=8", "-workers=8", "-max_total_time=150", "-artifact_prefix=" + arts, "-print_final_stats=1", "-detect_leaks=0"], cwd=work, timeout=400, env_=dict(env, VERIF_PROP=ID, VH_NO_JOURNAL="1", ASAN_OPTIONS="detect_leaks=0"))
    st["wall_s"] = round(time.time() - t0, 1)
    execs, cov = 0, 0
    for lf in glob.glob(os.path.join(work, "fuzz-*.log")):
        txt = open(lf, errors="replace").read()
        m = re.findall(r"stat::number_of_executed_units:\s*(\d+)", txt)
        if m:
            execs += int(m[-1])
        m = re.findall(r"cov: (\d+)", txt)
        if m:
            cov = max(cov, int(m[-1]))
    st.update({"fuzz_runs": execs, "coverage_edges": cov, "corpus_files": len(os.listdir(corpus)), "jobs": 8})
    crashes = sorted(glob.glob(arts + "*"))
    st["artifacts"] = len(crashes)
    for a in crashes[:1]:
        rc2, o2 = sh([binp, a], cwd=work, timeout=120, env_=dict(env, VERIF_PROP=ID, VH_NO_JOURNAL="1"))
        m = re.search(r"^CASE (.*)$", o2, re.M)
        rp_dir = os.path.join(OUT, "replays", ID)
        os.makedirs(rp_dir, exist_ok=True)
        if m:
            rp = os.path.join(rp_dir, "fuzz-%s.json" % os.path.basename(a)[-16:])
            engine = {"C13": "c13", "C16": "c16", "C17": "c17", "C18": "e4"}.get(ID, "e3")
            json.dump({"property": ID, "engine": engine, "case": json.loads(m.group(1)), "observed": "found by libFuzzer"}, open(rp, "w"), indent=1)
            sh([os.path.join(OUT, "target", "std", "release", "vh"), "minimize", rp, "--verif-dir", OUT], env_=dict(env, VH_CHILD="1"))
            violations.append((rp, "libFuzzer found an input whose decoded case violates the property (minimised case in the replay file)"))
        else:
            rp = os.path.join(rp_dir, "fuzz-crash-" + os.path.basename(a)[-16:])
            shutil.copy(a, rp)
            violations.append((rp, "libFuzzer input crashes the target (sanitizer report or abort); raw input saved, replay with the fuzz target: " + (o2.strip().splitlines() or [""])[-1][:200]))
    return st

def asan_stage():
    st = {"stage": "AddressSanitizer rebuild of the native engines"}
    tgt = os.path.join(OUT, "target", "asan")
    t0 = time.time()
    e = dict(env, RUSTFLAGS="-Zsanitizer=address", VH_NO_JOURNAL="")
    rc, out = sh(["cargo", "+nightly", "build", "--release", "--offline", "--target", "x86_64-unknown-linux-gnu", "--no-default-features", "--features", "std,plain-alloc", "--target-dir", tgt] + cfg, cwd=os.path.join(V, "harness"), timeout=1500, env_=e, log=os.path.join(OUT, "target", "build-asan.log"))
    if rc != 0:
        st["inconclusive"] = "ASan build failed (see target/build-asan.log)"
        return st
    st["build_s"] = round(time.time() - t0, 1)
    binp = os.path.join(tgt, "x86_64-unknown-linux-gnu", "release", "vh")
    e2 = dict(env, ASAN_OPTIONS="detect_leaks=0:abort_on_error=1")
    e2.pop("VH_NO_JOURNAL", None)
    t0 = time.time()
    rc, out = sh([binp, "check", ID, "--tier", "quick", "--scale", "0.5", "--seed", str(SEED), "--verif-dir", OUT, "--no-evidence"], timeout=3000, env_=e2)
    st["wall_s"] = round(time.time() - t0, 1)
    st["exit"] = rc
    m = re.search(r"evaluations=(\d+)", out)
    if m:
        st["evaluations"] = int(m.group(1))
    if rc == 1:
        m = re.search(r"^VIOLATION property=\S+ replay=(\S+)\n\s*(.*)$", out, re.M)
        violations.append((m.group(1) if m else "", "[ASan build] " + (m.group(2) if m else out[-300:])))
    elif rc != 0:
        st["inconclusive"] = (out.strip().splitlines() or [""])[-1][:300]
    return st

def miri_stage():
    st = {"stage": "Miri sample (-Zmiri-disable-stacked-borrows)"}
    tgt = os.path.join(OUT, "target", "miri")
    e = dict(env, MIRIFLAGS="-Zmiri-disable-stacked-borrows -Zmiri-disable-isolation -Zmiri-ignore-leaks", VH_CHILD="1", VH_NO_JOURNAL="1")
    t0 = time.time()
    rc, out = sh(["cargo", "+nightly", "miri", "run", "--offline", "--no-default-features", "--features", "std,plain-alloc", "--target-dir", tgt] + cfg + ["--", "check", ID, "--tier", "quick", "--scale", "0.005", "--workers", "1", "--seed", str(SEED), "--verif-dir", OUT, "--no-evidence"], cwd=os.path.join(V, "harness"), timeout=3000, env_=e, log=os.path.join(OUT, "target", "miri.log"))
    st["wall_s"] = round(time.time() - t0, 1)
    st["exit"] = rc
    m = re.search(r"evaluations=(\d+)", out)
    if m:
        st["evaluations"] = int(m.group(1))
    if "Undefined Behavior" in out:
        ub = re.search(r"error: Undefined Behavior: (.*)", out)
        rp_dir = os.path.join(OUT, "replays", ID); os.makedirs(rp_dir, exist_ok=True)
        rp = os.path.join(rp_dir, "miri-report.txt")
        open(rp, "w").write(out[-6000:])
        violations.append((rp, "[Miri] " + (ub.group(1) if ub else "undefined behaviour reported")))
    elif rc != 0:
        st["inconclusive"] = (out.strip().splitlines() or [""])[-1][:300]
    return st

def tsan_stage():
    """C19: the concurrent-reader scenario (every &self method of a shared cache from six
    threads) under ThreadSanitizer: a &self method that writes is a reported data race even
    when every answer still looks right."""
    st = {"stage": "ThreadSanitizer run of the concurrent-reader scenario"}
    tgt = os.path.join(OUT, "target", "tsan")
    t0 = time.time()
    e = dict(env, RUSTFLAGS="-Zsanitizer=thread")
    rc, out = sh(["cargo", "+nightly", "build", "--release", "--offline", "-Zbuild-std", "--target", "x86_64-unknown-linux-gnu", "--no-default-features", "--features", "std,plain-alloc", "--target-dir", tgt] + cfg, cwd=os.path.join(V, "harness"), timeout=2400, env_=e, log=os.path.join(OUT, "target", "build-tsan.log"))
    if rc != 0:
        st["inconclusive"] = "TSan build failed (see target/build-tsan.log)"
        return st
    st["build_s"] = round(time.time() - t0, 1)
    binp = os.path.join(tgt, "x86_64-unknown-linux-gnu", "release", "vh")
    os.makedirs(os.path.join(OUT, "work"), exist_ok=True)
    case = os.path.join(OUT, "work", "tsan-conc.json")
    json.dump({"property": "C19", "engine": "conc", "case": {}}, open(case, "w"))
    t0 = time.time()
    rc, out = sh([binp, "replay", case, "--verif-dir", OUT], timeout=1800, env_=dict(env, VH_CHILD="1", TSAN_OPTIONS="halt_on_error=1 exitcode=66"))
    st["wall_s"] = round(time.time() - t0, 1)
    st["exit"] = rc
    if "ThreadSanitizer" in out:
        rp_dir = os.path.join(OUT, "replays", ID); os.makedirs(rp_dir, exist_ok=True)
        rp = os.path.join(rp_dir, "tsan-report.txt")
        open(rp, "w").write(out[-8000:])
        m = re.search(r"WARNING: ThreadSanitizer: (.*)", out)
        violations.append((rp, "[TSan] %s while six threads call only `&self` methods of a shared cache (a `&self` method writes: the type must not be Sync)" % (m.group(1) if m else "data race")))
    elif rc == 1:
        m = re.search(r"^VIOLATION property=\S+ replay=(\S+)\n\s*(.*)$", out, re.M)
        violations.append((case, "[TSan build] " + (m.group(2) if m else out[-300:])))
    elif rc != 0:
        st["inconclusive"] = (out.strip().splitlines() or [""])[-1][:300]
    return st

stages = []
if not have_nightly():
    stages.append({"stage": "nightly toolchain", "inconclusive": "cargo +nightly not available: E3 / ASan / Miri stages skipped"})
else:
    if ID in FUZZ_PROPS:
        stages.append(fuzz_stage())
    if ID in ASAN_PROPS:
        stages.append(asan_stage())
    if ID in MIRI_PROPS:
        stages.append(miri_stage())
    if ID in TSAN_PROPS:
        stages.append(tsan_stage())

evp = os.path.join(OUT, "evidence", ID + ".json")
try:
    ev = json.load(open(evp))
    ev["coverage"]["thorough_stages"] = stages
    ev["violations"] = ev.get("violations", 0) + len(violations)
    json.dump(ev, open(evp, "w"), indent=1)
except Exception as e:
    print("note: could not merge stage results into", evp, e)
for rp, msg in violations:
    print("VIOLATION property=%s replay=%s" % (ID, rp))
    print("  " + msg)
for s in stages:
    print("STAGE", json.dumps(s))
sys.exit(1 if violations else 0)
